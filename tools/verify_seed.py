#!/usr/bin/env python3
"""tools/verify_seed.py <Cxx> <X>  (X in A, B: first batch /tmp/wt; C, D: second batch /tmp/wt2) — confirm a sub-agent's seeded change in a scratch worktree of /repo HEAD:
 demo passes on clean tree, fails with the patch, existing tests (relevant packages) still pass with the patch.
 On success writes /verif/seeded/<Cxx>-<X>/{patch.diff,demo.py,meta.json}. Scratch worktree removed at the end."""
import json, os, re, subprocess, sys, shutil, time
pid, x = sys.argv[1], sys.argv[2]
src = {"A": "/tmp/wt", "B": "/tmp/wt", "C": "/tmp/wt2", "D": "/tmp/wt2"}.get(x, "/tmp/wt3") + f"/{pid}.out"      # second batch of sub-agents: variants C, D
patch, demo, meta = f"{src}/{x}.patch.diff", f"{src}/{x}.demo.py", f"{src}/{x}.meta.md"
wt = f"/tmp/seedwt/{pid}-{x}"
os.makedirs("/tmp/seedwt", exist_ok=True)
def sh(cmd, **k):
    return subprocess.run(cmd, shell=True, capture_output=True, text=True, **k)
sh(f"git -C /repo worktree remove --force {wt}")
r = sh(f"git -C /repo worktree add --detach {wt} HEAD"); assert r.returncode == 0, r.stderr
env = dict(os.environ, PYTHONPATH=f"{wt}:/tmp/stubs", RENO_NUM_THREADS="1", RENO_LOG_LEVEL="50", OMP_NUM_THREADS="1")
env.pop("RENORMALIZER_VERIF", None)
out = {"property": pid, "variant": x}
try:
    r0 = sh(f"/venv/bin/python {demo}", env=env, cwd=src, timeout=1800)
    out["demo_clean_rc"] = r0.returncode
    ra = sh(f"git -C {wt} apply {patch}")
    if ra.returncode != 0:
        ra = sh(f"git -C {wt} apply --3way {patch}")
    out["apply_rc"] = ra.returncode
    out["apply_err"] = ra.stderr[-500:]
    r1 = sh(f"/venv/bin/python {demo}", env=env, cwd=src, timeout=1800)
    out["demo_patched_rc"] = r1.returncode
    out["demo_patched_tail"] = (r1.stdout + r1.stderr)[-600:]
    files = re.findall(r"^\+\+\+ b/(\S+)", open(patch).read(), re.M)
    out["files"] = files
    pk = set()
    for f in files:
        if "/tn/" in f: pk.add("renormalizer/tn/tests")
        elif "/model/" in f: pk |= {"renormalizer/model", "renormalizer/mps/tests/test_mpo.py", "renormalizer/mps/tests/test_gs.py"}
        elif "/lib/" in f: pk |= {"renormalizer/lib", "renormalizer/mps/tests/test_mpo.py", "renormalizer/mps/tests/test_evolve.py", "renormalizer/mps/tests/test_gs.py"}
        elif "/utils/" in f: pk |= {"renormalizer/utils", "renormalizer/mps/tests", "renormalizer/transport/tests/test_dynamics.py"}
        else: pk |= {"renormalizer/mps", "renormalizer/spectra/tests", "renormalizer/transport/tests/test_dynamics.py"}
    t0 = time.time()
    rt = sh(f"/venv/bin/python -m pytest -q -p no:cacheprovider --timeout=1800 -x --deselect renormalizer/mps/tests/test_mpo.py::test_symbolic_mpo --deselect renormalizer/model/tests/test_basis.py::test_SineDVR --deselect renormalizer/model/op.py::renormalizer.model.op.Op.split_elementary --deselect renormalizer/tn/node.py::renormalizer.tn.node.TreeNodeBasis.__init__ " + " ".join(sorted(pk)), env=env, cwd=wt, timeout=7200)
    out["tests"] = sorted(pk); out["tests_rc"] = rt.returncode; out["tests_tail"] = rt.stdout[-400:]; out["tests_wall"] = round(time.time() - t0)
    ok = out["demo_clean_rc"] == 0 and out["apply_rc"] == 0 and out["demo_patched_rc"] != 0 and out["tests_rc"] == 0
    out["confirmed"] = ok
    if ok:
        d = f"/verif/seeded/{pid}-{x}"
        os.makedirs(d, exist_ok=True)
        shutil.copy(patch, f"{d}/patch.diff"); shutil.copy(demo, f"{d}/demo.py")
        m = {"breaks_property": pid, "source": "independent sub-agent given only the property text and a scratch worktree",
             "needs_to_manifest": open(meta).read() if os.path.exists(meta) else "",
             "confirmed": {"demo_on_clean_tree_rc": 0, "demo_with_patch_rc": out["demo_patched_rc"],
                           "existing_tests_with_patch": out["tests"], "existing_tests_rc": 0,
                           "repo_head": sh("git -C /repo rev-parse --short HEAD").stdout.strip()},
             "detected_by": "TBD"}
        json.dump(m, open(f"{d}/meta.json", "w"), indent=1)
finally:
    sh(f"git -C /repo worktree remove --force {wt}")
json.dump(out, open(f"/tmp/seedwt/{pid}-{x}.result.json", "w"), indent=1)
print(json.dumps({k: out.get(k) for k in ("property","variant","demo_clean_rc","apply_rc","demo_patched_rc","tests_rc","tests_wall","confirmed")}))
