"""spec -> code replay of OpAlgebra programs on real Op / OpSum objects (C15)."""
import numpy as np

from .common import rng_for

SX = np.array([[0., 1.], [1., 0.]])
SZ = np.array([[1., 0.], [0., -1.]])
I2 = np.eye(2)
MATS = {"X": SX, "Z": SZ, "I": I2}
SYMS = {"X": "sigma_x", "Z": "sigma_z", "I": "I"}


def letter_matrix(sym, dof, ndof=2):
    mats = [I2] * ndof
    mats = list(mats)
    mats[dof] = MATS[sym]
    out = np.array([[1.0]])
    for m in mats:
        out = np.kron(out, m)
    return out


def dense_terms(ts):
    tot = np.zeros((4, 4), dtype=complex)
    for t in ts:
        m = np.eye(4, dtype=complex)
        for sym, dof in t["w"]:
            m = m @ letter_matrix(sym, dof)
        tot += (t["re"] + 1j * t["im"]) / 4.0 * m
    return tot


class Concretiser:
    def __init__(self, qn_size):
        self.qn_size = qn_size
        self.dofs = ["s0", ("s", 1)]

    def qn(self):
        return 0 if self.qn_size == 1 else [0] * self.qn_size

    def term(self, t):
        from renormalizer.model import Op
        syms = " ".join(SYMS[s] for s, d in t["w"])
        dofs = [self.dofs[d] for s, d in t["w"]]
        f = complex(t["re"], t["im"]) / 4.0
        f = f.real if f.imag == 0 else f
        if self.qn_size == 1:
            return Op(syms, dofs, f)
        return Op(syms, dofs, f, qn=[np.zeros(self.qn_size, dtype=int) for _ in dofs])

    def reg(self, r):
        from renormalizer.model import OpSum
        ts = [self.term(t) for t in r["ts"]]
        if r["kind"] == "op":
            return ts[0]
        return OpSum(ts)

    def back(self, obj):
        """real object -> (kind, bag over squeezed words -> complex coefficient, dense matrix)."""
        from renormalizer.model import Op
        inv = {v: k for k, v in SYMS.items()}
        dinv = {self.dofs[0]: 0, self.dofs[1]: 1}
        ops = [obj] if isinstance(obj, Op) else list(obj)
        bag = {}
        tot = np.zeros((4, 4), dtype=complex)
        for op in ops:
            w = tuple((inv[s], dinv[d]) for s, d in zip(op.split_symbol, op.dofs))
            sq = tuple(l for l in w if l[0] != "I")
            bag[sq] = bag.get(sq, 0) + complex(op.factor)
            m = np.eye(4, dtype=complex)
            for sym, dof in w:
                m = m @ letter_matrix(sym, dof)
            tot += complex(op.factor) * m
        bag = {k: v for k, v in bag.items() if abs(v) > 1e-14}
        return ("op" if isinstance(obj, Op) else "sum"), bag, tot


def spec_bag(r):
    bag = {}
    for t in r["ts"]:
        sq = tuple((s, d) for s, d in t["w"] if s != "I")
        bag[sq] = bag.get(sq, 0) + complex(t["re"], t["im"]) / 4.0
    return {k: v for k, v in bag.items() if abs(v) > 1e-14}


def scalar_variant(k, rng):
    v = complex(k[0], k[1]) / 4.0
    if v.imag != 0:
        return [v, np.complex128(v)][int(rng.integers(2))]
    x = v.real
    choices = [float(x), np.float64(x)]
    if x == int(x):
        choices += [int(x), np.int64(int(x))]
    return choices[int(rng.integers(len(choices)))]


def bags_equal(a, b, tol=1e-12):
    keys = set(a) | set(b)
    return all(abs(a.get(k, 0) - b.get(k, 0)) <= tol for k in keys)


def replay_program(case, cid, seed, qn_size):
    from renormalizer.model import Op, OpSum
    out = {"viol": [], "steps": 0, "nontrivial": False}
    cz = Concretiser(qn_size)
    rng = rng_for(seed, "ops", cid, qn_size)
    regs = {i + 1: cz.reg(r) for i, r in enumerate(case["init"])}
    exp = {i + 1: r for i, r in enumerate(case["init"])}
    detail = {"case": case, "qn_size": qn_size}

    def V(key, what, si):
        out["viol"].append((key, what, dict(detail, failed_at_step=si)))
    for si, e in enumerate(case["hist"]):
        op, a, b, r, k = e["op"], e["a"], e["b"], e["r"], e["k"]
        before = {i: cz.back(o) for i, o in regs.items()}
        ids_before = {i: id(o) for i, o in regs.items()}
        try:
            A, B = regs[a], regs[b]
            # operands that are sums may be handed over as PLAIN lists of Op (model.ham_terms, a slice, a comprehension):
            # Op * list, OpSum * list, list * Op (Op.__rmul__), Op + list, OpSum + list are the supported forms
            plain = int(rng.integers(3))
            if op == "Mul" and plain == 1 and isinstance(B, OpSum):
                res = A * list(B)
            elif op == "Mul" and plain == 2 and isinstance(A, OpSum) and not isinstance(B, OpSum):
                res = list(A) * B
            elif op == "Add" and plain == 1 and isinstance(B, OpSum):
                res = A + list(B)
            elif op == "Mul":
                res = A * B
            elif op == "MulScalar":
                res = A * scalar_variant(k, rng)
            elif op == "RMulScalar":
                res = scalar_variant(k, rng) * A
            elif op == "Div":
                res = A / scalar_variant(k, rng)
            elif op == "Add":
                res = A + B
            elif op == "Sub":
                res = A - B
            elif op == "AddZero":
                res = A + [0, 0.0, np.array(0)][int(rng.integers(3))]
            elif op == "RAddZero":
                res = [0, 0.0, np.array(0)][int(rng.integers(3))] + A
            elif op == "Neg":
                res = -A
            elif op == "IAdd":
                res = A
                res += B
            elif op == "Simplify":
                atol = 0 if k[0] == 0 else 1.0
                res = A.simplify(atol=atol) if atol else [A.simplify(), A.simplify(atol=0)][int(rng.integers(2))]
            else:
                raise ValueError(op)
        except Exception as ex:
            V(f"C15:raises:{op}:qn{qn_size}", f"{op} raised {type(ex).__name__}: {ex}", si)
            break
        regs[r] = res
        exp[r] = e["res"]
        out["steps"] += 1
        kind, bag, dense = cz.back(res)
        # (i) structure: the result denotes the bag the specification computed (exact rationals)
        if kind != e["res"]["kind"]:
            V(f"C15:kind:{op}", f"{op} returned {kind}, specification says {e['res']['kind']}", si)
        if not bags_equal(bag, spec_bag(e["res"])):
            V(f"C15:denotation:{op}:qn{qn_size}", f"{op}: result {bag} differs from the specification {spec_bag(e['res'])}", si)
            break
        # (ii) dense homomorphism against the operand matrices as they were before the call
        da, db = before[a][2], before[b][2]
        kv = complex(k[0], k[1]) / 4.0
        ref = {"Mul": da @ db, "MulScalar": da * kv, "RMulScalar": da * kv, "Div": da / kv if kv != 0 else da, "Add": da + db, "Sub": da - db,
               "AddZero": da, "RAddZero": da, "Neg": -da, "IAdd": da + db}.get(op)
        if op == "Simplify":
            if k[0] == 0:
                ref = da
            else:
                # dropping terms of size <= atol may change the operator by at most (number of dropped terms) * atol
                ndrop = len(before[a][1]) - len(bag)
                if np.linalg.norm(dense - da, 2) > max(ndrop, 0) * 1.0 + 1e-12:
                    V("C15:simplify-atol", f"simplify(atol=1.0) changed the operator by {np.linalg.norm(dense - da, 2):.3f} with {ndrop} dropped terms", si)
                ref = None
        if ref is not None and np.linalg.norm(dense - ref) > 1e-12 * (np.linalg.norm(ref) + 1):
            V(f"C15:dense:{op}:qn{qn_size}", f"{op}: dense matrix of the result differs from the matrix expression of the operands by {np.linalg.norm(dense - ref):.2e}", si)
            break
        # (iii) frame: every other register keeps its value (IAdd mutates its left operand only)
        for i, o in regs.items():
            if i == r:
                continue
            kk, bb, dd = cz.back(o)
            if not bags_equal(bb, before[i][1]) or np.linalg.norm(dd - before[i][2]) > 1e-12:
                V(f"C15:frame:{op}", f"{op} into register {r} changed register {i}", si)
        out["nontrivial"] = out["nontrivial"] or op in ("Mul", "Simplify", "IAdd", "Sub")
    # equality / hash consistency on every pair of single operators seen
    ops = []
    for o in regs.values():
        ops += [o] if isinstance(o, Op) else list(o)
    for x in ops:
        for y in ops:
            same = (x.symbol == y.symbol and list(x.dofs) == list(y.dofs) and x.factor == y.factor
                    and all(np.array_equal(p, q) for p, q in zip(x.qn_list, y.qn_list)) and len(x.qn_list) == len(y.qn_list))
            try:
                eq = (x == y)
                if eq != same:
                    V("C15:eq", f"{x} == {y} is {eq} but the operators are {'identical' if same else 'different'}", None)
                if eq and hash(x) != hash(y):
                    V("C15:hash", f"{x} == {y} but their hashes differ", None)
            except Exception as ex:
                V(f"C15:eq-raises:qn{qn_size}", f"comparing {x} and {y} raised {type(ex).__name__}: {ex}", None)
                return out
    return out


def replay_chunk(args):
    from .common import bootstrap
    bootstrap()
    cases, seed = args
    out = []
    for cid, case in cases:
        for qn_size in (1, 2):
            out.append((cid, qn_size, replay_program(case, cid, seed, qn_size)))
    return out
