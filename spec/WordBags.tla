------------------------------ MODULE WordBags ------------------------------
(* Finite formal sums of words with integer coefficients:  sets of <<word, coeff>> with distinct
   words and coeff # 0.  A word is a sequence of local symbol ids (0 = identity), one per site.
   This is the value domain of the symbolic-operator specifications (SymbolicMpo, SymbolicTtno). *)
EXTENDS Integers, Sequences, FiniteSets

Coef(B, w) == IF \E p \in B : p[1] = w THEN (CHOOSE p \in B : p[1] = w)[2] ELSE 0
Support(B) == {p[1] : p \in B}
Norm(ws, f(_)) == {<<w, f(w)>> : w \in {x \in ws : f(x) # 0}}
BAdd(B1, B2) == LET ws == Support(B1) \cup Support(B2) IN Norm(ws, LAMBDA w : Coef(B1, w) + Coef(B2, w))
BScale(B, k) == IF k = 0 THEN {} ELSE {<<p[1], k * p[2]>> : p \in B}
BAppend(B, s) == {<<Append(p[1], s), p[2]>> : p \in B}
BConcat(B, suf, k) == IF k = 0 THEN {} ELSE {<<p[1] \o suf, k * p[2]>> : p \in B}
RECURSIVE BSum(_)
BSum(S) == IF S = {} THEN {} ELSE LET x == CHOOSE x \in S : TRUE IN BAdd(x, BSum(S \ {x}))
\* sum of a sequence of bags (keeps multiplicity, unlike BSum over a set)
RECURSIVE BSumSeq(_)
BSumSeq(s) == IF s = <<>> THEN {} ELSE BAdd(Head(s), BSumSeq(Tail(s)))
\* bag of a list of <<word, coeff>> with repetitions: _deduplicate_table
RECURSIVE BOfList(_)
BOfList(l) == IF l = <<>> THEN {} ELSE BAdd({<<Head(l)[1], Head(l)[2]>>} \ {<<Head(l)[1], 0>>}, BOfList(Tail(l)))
\* exchange letters i and i+1 of every word
SwapWord(w, i) == [k \in DOMAIN w |-> IF k = i THEN w[i + 1] ELSE IF k = i + 1 THEN w[i] ELSE w[k]]
BSwap(B, i) == {<<SwapWord(p[1], i), p[2]>> : p \in B}
=============================================================================
