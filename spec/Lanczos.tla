------------------------------ MODULE Lanczos ------------------------------
(* Index / buffer model of expm_krylov (renormalizer/lib/krylov/krylov.py).

   n = len(vstart), B = block_size.  Buffers: alpha (length la), beta (lb), V (lv rows).  One action per
   statement group of the loop body; array accesses are recorded as obligations `InRange`.
   Exits: ExitFull (j = n-1), ExitBreakdown (beta[j] ~ 0: may happen at any j, data dependent),
          ExitConverged (only at even j > 3 when a previous estimate exists and agrees).
   dtype: V is allocated with the dtype of the start vector; storing A.v of a complex A into a real V narrows
   (FixDtype = TRUE models allocating with the promoted dtype).                                            *)
EXTENDS Integers, TLC, Json
CONSTANTS MaxN, MaxB, FixDtype

VARIABLES n, B, j, la, lb, lv, pc, haveRes, ret, bad, vCplx, aCplx
vars == <<n, B, j, la, lb, lv, pc, haveRes, ret, bad, vCplx, aCplx>>

Init == /\ n \in 1..MaxN /\ B \in 1..MaxB /\ vCplx \in BOOLEAN /\ aCplx \in BOOLEAN
        /\ j = 0 /\ la = B /\ lb = B - 1 /\ lv = B /\ pc = "matvec" /\ haveRes = FALSE /\ ret = 0 /\ bad = {}

Acc(cond, tag) == IF cond THEN {} ELSE {tag}
\* w = Afunc(V[j]); alpha[j] = ...
Matvec == /\ pc = "matvec"
          /\ bad' = bad \cup Acc(j < lv, <<"V-read", j>>) \cup Acc(j < la, <<"alpha-write", j>>)
          /\ pc' = IF j = n - 1 THEN "exit_full" ELSE "grow"
          /\ UNCHANGED <<n, B, j, la, lb, lv, haveRes, ret, vCplx, aCplx>>
ExitFull == /\ pc = "exit_full" /\ ret' = j + 1 /\ pc' = "done"
            /\ bad' = bad \cup Acc(j <= lb, <<"beta-slice", j>>)
            /\ UNCHANGED <<n, B, j, la, lb, lv, haveRes, vCplx, aCplx>>
\* if len(V) == j+1: enlarge all three buffers by B
Grow == /\ pc = "grow"
        /\ IF lv = j + 1 THEN lv' = lv + B /\ la' = la + B /\ lb' = lb + B ELSE UNCHANGED <<lv, la, lb>>
        /\ pc' = "beta" /\ UNCHANGED <<n, B, j, haveRes, ret, bad, vCplx, aCplx>>
\* beta[j] = norm(w); breakdown test
Beta == /\ pc = "beta"
        /\ bad' = bad \cup Acc(j < lb, <<"beta-write", j>>) \cup Acc(j = 0 \/ j - 1 < lb, <<"beta-read", j - 1>>)
        /\ \/ pc' = "exit_break"          \* beta[j] < eps: data dependent, any j
           \/ pc' = "check"
        /\ UNCHANGED <<n, B, j, la, lb, lv, haveRes, ret, vCplx, aCplx>>
ExitBreak == /\ pc = "exit_break" /\ ret' = j + 1 /\ pc' = "done"
             /\ UNCHANGED <<n, B, j, la, lb, lv, haveRes, bad, vCplx, aCplx>>
\* if 3 < j and j % 2 == 0: compare with the previous estimate
Check == /\ pc = "check"
         /\ IF 3 < j /\ j % 2 = 0
            THEN \/ (haveRes /\ pc' = "exit_conv" /\ UNCHANGED haveRes)
                 \/ (pc' = "store" /\ haveRes' = TRUE)
            ELSE pc' = "store" /\ UNCHANGED haveRes
         /\ UNCHANGED <<n, B, j, la, lb, lv, ret, bad, vCplx, aCplx>>
ExitConv == /\ pc = "exit_conv" /\ ret' = j + 1 /\ pc' = "done"
            /\ UNCHANGED <<n, B, j, la, lb, lv, haveRes, bad, vCplx, aCplx>>
\* V[j + 1] = w / beta[j]
Store == /\ pc = "store"
         /\ bad' = bad \cup Acc(j + 1 < lv, <<"V-write", j + 1>>)
                       \cup (IF aCplx /\ ~vCplx /\ ~FixDtype THEN {<<"narrowing-store", j + 1>>} ELSE {})
         /\ j' = j + 1 /\ pc' = "matvec"
         /\ UNCHANGED <<n, B, la, lb, lv, haveRes, ret, vCplx, aCplx>>
Next == Matvec \/ ExitFull \/ Grow \/ Beta \/ ExitBreak \/ Check \/ ExitConv \/ Store
Spec == Init /\ [][Next]_vars /\ WF_vars(Next)

InRange == \A x \in bad : x[1] = "narrowing-store"
NoNarrowing == \A x \in bad : x[1] # "narrowing-store"
CountOK == pc = "done" => (ret = j + 1 /\ ret <= n /\ ret >= 1)
Terminates == <>(pc = "done")
\* reachable (n, B, iterations) triples: what a recorded call may report
EmitExit == pc = "done" => PrintT(<<"EMIT", ToJson([n |-> n, b |-> B, iters |-> ret])>>)
=============================================================================
