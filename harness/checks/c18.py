"""C18 — numerical kernels meet their contracts on every admissible input.

Krylov exponential: Lanczos.tla models the buffer indices / exits / buffer dtype of expm_krylov for every n <= 8 and
block size <= 5 (every access in range, returned count = j+1 <= n, no narrowing store); the real function is run on
structured Hermitian matrices (degenerate, rank-deficient, diagonal, block-diagonal with invariant subspaces of every
dimension), real / imaginary / negative dt, real and complex A and start vectors, block sizes 1..50, against
scipy.linalg.expm; the (n, block_size, iterations) triple of every call must be a reachable exit of the model.
Symmetry-blocked decompositions: SvdQn.tla enumerates every label pattern in the scope with the sectors the loop must
decompose (order independent); svd_qn (SVD/QR, full/economic, both systems) and eigh_qn are run on each pattern.
"""
import json

import numpy as np

from .. import tlc
from ..common import pmap, MachineryError, bootstrap, rng_for

LEVEL = "model_checking"


# ------------------------------------------------------------------------------------------------ Krylov

def _structured(kind, n, rng, cplx):
    if kind == "random":
        a = rng.normal(size=(n, n)) + (1j * rng.normal(size=(n, n)) if cplx else 0)
        return (a + a.conj().T) / 2
    if kind == "diagonal":
        return np.diag(rng.normal(size=n)).astype(complex if cplx else float)
    if kind == "degenerate":
        w = rng.choice([-1.0, 0.5, 2.0], size=n)
        q, _ = np.linalg.qr(rng.normal(size=(n, n)) + (1j * rng.normal(size=(n, n)) if cplx else 0))
        return (q * w) @ q.conj().T
    if kind == "rankdef":
        r = max(1, n // 3)
        b = rng.normal(size=(n, r)) + (1j * rng.normal(size=(n, r)) if cplx else 0)
        return b @ b.conj().T
    raise ValueError(kind)


def _krylov_cases(args):
    bootstrap()
    from renormalizer.lib.krylov.krylov import expm_krylov
    from scipy.linalg import expm
    seed, k, tier = args
    out = {"cases": [], "viol": [], "triples": []}
    rng = rng_for(seed, "krylov", k)
    sizes = [1, 2, 3, 5, 8, 13, 24, 40]
    blocks = [1, 2, 3, 5, 7, 50]
    nrep = 1 if tier == "quick" else 3
    for rep in range(nrep):
        for n in sizes:
            for kind in ("random", "diagonal", "degenerate", "rankdef", "invariant"):
                for acplx in (False, True):
                    for vcplx in (False, True):
                        if (n + len(kind) + acplx + 2 * vcplx + k) % 4 != 0 and tier == "quick":
                            continue
                        d = None
                        if kind == "invariant":
                            # start vector in a d-dimensional invariant subspace of a block-diagonal matrix
                            d = int(rng.integers(1, n + 1))
                            A = np.zeros((n, n), dtype=complex if acplx else float)
                            A[:d, :d] = _structured("random", d, rng, acplx)
                            # tridiagonal coupling inside the block keeps the Krylov space exactly d-dimensional
                            if n > d:
                                A[d:, d:] = _structured("random", n - d, rng, acplx)
                            v = np.zeros(n, dtype=complex if vcplx else float)
                            v[:d] = rng.normal(size=d) + (1j * rng.normal(size=d) if vcplx else 0)
                            # random orthogonal mixing keeps the invariant-subspace structure but hides the zeros
                            if rng.random() < 0.5:
                                q, _ = np.linalg.qr(rng.normal(size=(n, n)))
                                A = q @ A @ q.T
                                v = q @ v
                        else:
                            A = _structured(kind, n, rng, acplx)
                            v = rng.normal(size=n) + (1j * rng.normal(size=n) if vcplx else 0)
                        nrmA = np.linalg.norm(A, 2) + 1e-300
                        for dtk in ("real+", "real-", "imag+", "imag-"):
                            mag = float(rng.choice([0.1, 1.0, 4.0])) / nrmA
                            dt = {"real+": mag, "real-": -mag, "imag+": 1j * mag, "imag-": -1j * mag}[dtk]
                            B = int(blocks[int(rng.integers(len(blocks)))])
                            cnt = [0]

                            def Af(x):
                                cnt[0] += 1
                                return A @ x
                            detail = {"n": n, "kind": kind, "A_complex": acplx, "v_complex": vcplx, "dt": str(dt), "block_size": B,
                                      "invariant_dim": d, "seed": seed, "k": k, "rep": rep}
                            out["cases"].append(f"{n}/{kind}/{acplx}/{vcplx}/{dtk}/{B}/{d}/{rep}/{k}")
                            try:
                                import warnings
                                with warnings.catch_warnings():
                                    warnings.simplefilter("ignore")
                                    got, it = expm_krylov(Af, dt, v.copy(), block_size=B)
                            except Exception as e:
                                out["viol"].append((f"C18:krylov:raises:{type(e).__name__}", f"expm_krylov raised {type(e).__name__}: {e}", detail))
                                continue
                            ref = expm(dt * A) @ v
                            err = np.linalg.norm(got - ref) / (np.linalg.norm(ref) + 1e-300)
                            out["triples"].append((n, B, int(it), cnt[0]))
                            if it > n or it != cnt[0]:
                                out["viol"].append(("C18:krylov:iteration-count", f"returned {it} iterations, {cnt[0]} matrix-vector products, n={n}", detail))
                            if err > 1e-6:
                                cls = "complexA-realv" if (acplx and not vcplx) else ("invariant-subspace" if kind == "invariant" else "general")
                                out["viol"].append((f"C18:krylov:accuracy:{cls}", f"expm_krylov differs from scipy expm by relative {err:.2e} (||A dt|| = {abs(dt) * nrmA:.2f})", detail))
    return out


# ------------------------------------------------------------------------------------------------ svd_qn / eigh_qn

def _svdqn_cases(args):
    bootstrap()
    from renormalizer.mps import svd_qn as sq
    pats, seed = args
    out = {"cases": [], "viol": []}
    for pi, p in pats:
        rng = rng_for(seed, "svdqn", pi)
        ql = np.array(p["ql"], dtype=int)
        qr = np.array(p["qr"], dtype=int)
        Q = np.array(p["Q"], dtype=int)
        nl, nr = len(ql), len(qr)
        mask = np.all(ql[:, None, :] + qr[None, :, :] == Q[None, None, :], axis=-1)
        sectors = p["sectors"]
        for cplx in (False, True):
            M = rng.normal(size=(nl, nr)) + (1j * rng.normal(size=(nl, nr)) if cplx else 0)
            masked = np.where(mask, M, 0)
            detail = {"pattern": p, "complex": cplx}
            if not sectors:
                # no allowed pair: the library documents ValueError("Invalid quantum number")
                out["cases"].append(f"{pi}/empty/{cplx}")
                try:
                    sq.svd_qn(M, ql, qr, Q, full_matrices=False)
                    out["viol"].append(("C18:svd_qn:no-sector-accepted", "svd_qn returned for a label pattern without any allowed sector", detail))
                except ValueError:
                    pass
                except Exception as e:
                    out["viol"].append(("C18:svd_qn:no-sector-raises-other", f"{type(e).__name__}: {e}", detail))
                continue
            exp_econ_l = sorted(tuple(s["nl"]) for s in sectors for _ in range(min(s["nlset"], s["nrset"])))
            exp_econ_r = sorted(tuple(s["nr"]) for s in sectors for _ in range(min(s["nlset"], s["nrset"])))
            exp_full_l = sorted(tuple(s["nl"]) for s in sectors for _ in range(s["nlset"]))
            exp_full_r = sorted(tuple(s["nr"]) for s in sectors for _ in range(s["nrset"]))
            K = len(exp_econ_l)
            for QR in (False, True):
                for full in (False, True):
                    for system in ("L", "R"):
                        if not QR and system == "R":
                            continue
                        tag = f"{'qr' if QR else 'svd'}:{'full' if full else 'economic'}:{system}"
                        out["cases"].append(f"{pi}/{tag}/{cplx}")
                        d2 = dict(detail, mode=tag)
                        try:
                            if QR:
                                u, lql, v, lqr = sq.svd_qn(M, ql, qr, Q, QR=True, system=system, full_matrices=full)
                                s = None
                            else:
                                u, s, lql, v, s2, lqr = sq.svd_qn(M, ql, qr, Q, full_matrices=full)
                        except Exception as e:
                            out["viol"].append((f"C18:svd_qn:raises:{tag}", f"{type(e).__name__}: {e}", d2))
                            continue
                        rawl = [tuple(int(x) for x in np.atleast_1d(t)) for t in lql]
                        rawr = [tuple(int(x) for x in np.atleast_1d(t)) for t in lqr]
                        if len(rawl) != u.shape[1] or len(rawr) != v.shape[1]:
                            out["viol"].append((f"C18:svd_qn:labels:{tag}", "number of labels differs from the number of returned columns", d2))
                            continue
                        # every column lives on the indices that carry its label (block structure)
                        bad_support = False
                        for cols, labs, idxlab in ((u, rawl, ql), (v, rawr, qr)):
                            for ci, lab_ in enumerate(labs):
                                off = ~np.all(idxlab == np.array(lab_)[None, :], axis=-1)
                                if np.linalg.norm(cols[off, ci]) > 1e-10:
                                    bad_support = True
                        if bad_support:
                            out["viol"].append((f"C18:svd_qn:labels:{tag}", "a returned column has weight on indices that do not carry its label", d2))
                            continue
                        if full:
                            # full mode: the first K columns are the economic ones; how many null-space columns are added per sector is
                            # an implementation choice (opt_full_matrices), their labels must be labels of decomposed sectors
                            ok_lab = sorted(rawl[:K]) == exp_econ_l and sorted(rawr[:K]) == exp_econ_r \
                                and set(rawl) <= set(exp_econ_l) and set(rawr) <= set(exp_econ_r)
                        else:
                            ok_lab = sorted(rawl) == exp_econ_l and sorted(rawr) == exp_econ_r
                        if not ok_lab:
                            out["viol"].append((f"C18:svd_qn:labels:{tag}", f"returned labels {rawl} / {rawr} differ from the specification {exp_econ_l} / {exp_econ_r}", d2))
                            continue
                        # orthonormality of the isometric factor(s)
                        def orth(x):
                            return np.linalg.norm(x.conj().T @ x - np.eye(x.shape[1]))
                        iso_u = (not QR) or system == "L"
                        iso_v = (not QR) or system == "R"
                        if (iso_u and orth(u) > 1e-10) or (iso_v and orth(v) > 1e-10):
                            out["viol"].append((f"C18:svd_qn:orthonormal:{tag}", "returned factor does not have orthonormal columns", d2))
                        # reconstruction of the symmetry-allowed part
                        if QR:
                            rec = u[:, :] @ v.T if u.shape[1] == v.shape[1] else u[:, :K] @ v[:, :K].T
                            if full and u.shape[1] != v.shape[1]:
                                # full mode: per sector u has nlset columns, v has nrset: pair them sector by sector through the labels
                                rec = None
                        else:
                            rec = (u[:, :K] * s[:K]) @ v[:, :K].T
                        if rec is not None and np.linalg.norm(rec - masked) > 1e-10 * (np.linalg.norm(masked) + 1):
                            out["viol"].append((f"C18:svd_qn:reconstruction:{tag}", f"product of the factors differs from the symmetry-allowed part of the input by {np.linalg.norm(rec - masked):.2e}", d2))
                        if not QR and not full:
                            if np.any(np.diff(s) > 1e-12):
                                out["viol"].append((f"C18:svd_qn:sorted:{tag}", "singular values of the truncating form are not globally sorted", d2))
                            ref_s = np.sort(np.linalg.svd(masked, compute_uv=False))[::-1][:K]
                            if np.linalg.norm(np.sort(s)[::-1] - ref_s) > 1e-10 * (np.linalg.norm(ref_s) + 1):
                                out["viol"].append((f"C18:svd_qn:singular-values:{tag}", "singular values differ from numpy SVD of the masked matrix", d2))
            # eigh_qn on a PSD matrix over the left index
            for system in ("L", "R"):
                lab, comp = (ql, qr) if system == "L" else (qr, ql)
                m = len(lab)
                Bm = rng.normal(size=(m, m)) + (1j * rng.normal(size=(m, m)) if cplx else 0)
                dm = Bm @ Bm.conj().T
                allowed = [tuple(s["nl"] if system == "L" else s["nr"]) for s in sectors]
                keep = np.array([tuple(x) in allowed for x in lab])
                same = np.all(lab[:, None, :] == lab[None, :, :], axis=-1) & keep[:, None] & keep[None, :]
                mdm = np.where(same, dm, 0)
                out["cases"].append(f"{pi}/eigh/{system}/{cplx}")
                d2 = dict(detail, mode=f"eigh:{system}")
                try:
                    u, s, lq = sq.eigh_qn(dm, ql, qr, Q, system)
                except Exception as e:
                    out["viol"].append((f"C18:eigh_qn:raises:{system}", f"{type(e).__name__}: {e}", d2))
                    continue
                lq = sorted(tuple(int(x) for x in np.atleast_1d(t)) for t in lq)
                el = sorted(tuple(int(y) for y in x) for x in lab[keep])
                if lq != el:
                    out["viol"].append((f"C18:eigh_qn:labels:{system}", f"labels {lq} differ from the allowed-sector labels {el}", d2))
                    continue
                if np.linalg.norm(u.conj().T @ u - np.eye(u.shape[1])) > 1e-10:
                    out["viol"].append((f"C18:eigh_qn:orthonormal:{system}", "eigenvectors not orthonormal", d2))
                rec = (u * s ** 2) @ u.conj().T
                if np.linalg.norm(rec - mdm) > 1e-9 * (np.linalg.norm(mdm) + 1):
                    out["viol"].append((f"C18:eigh_qn:reconstruction:{system}", f"U S^2 U^+ differs from the symmetry-allowed part of the density matrix by {np.linalg.norm(rec - mdm):.2e}", d2))
    return out


def run(ctx):
    tier = ctx.tier
    # ---- Lanczos model
    cfg = tlc.make_cfg(constants=dict(MaxN=8, MaxB=5, FixDtype=True), spec="Spec", invariants=["InRange", "CountOK", "NoNarrowing", "EmitExit"], properties=["Terminates"])
    r = tlc.run("Lanczos", cfg, mode="emit", timeout=600)
    ctx.add_tlc(r, "Lanczos n<=8, block<=5 (indices, count, dtype, termination)")
    if r["violated"]:
        ctx.violation(f"C18:spec:Lanczos:{r['violated']}", "Lanczos model violates " + r["violated"], {"tlc": r.get("error_text", "")[:2000]})
    reach = {(e["n"], e["b"], e["iters"]) for e in r["emitted"]}
    # regression config: the pinned buffer allocation (dtype of the start vector) must violate NoNarrowing
    cfg = tlc.make_cfg(constants=dict(MaxN=6, MaxB=3, FixDtype=False), spec="Spec", invariants=["NoNarrowing"])
    rn = tlc.run("Lanczos", cfg, timeout=600, expect_violation=True)
    ctx.add_tlc(rn, "Lanczos pinned buffer dtype (must fail)")
    if rn["violated"] != "NoNarrowing":
        raise MachineryError("regression config: pinned Lanczos buffer allocation no longer violates NoNarrowing")
    res = pmap(_krylov_cases, [(ctx.seed, k, tier) for k in range(16)], chunksize=1)
    ntr = 0
    for st, o in res:
        if st != "ok":
            raise MachineryError("krylov worker failed: " + o)
        for c in o["cases"]:
            ctx.case(fingerprint="kry/" + c, nontrivial=True)
        for key, what, detail in o["viol"]:
            ctx.violation(key, what, detail)
        for (n, B, it, cnt) in o["triples"]:
            if n <= 8 and B <= 5:
                ntr += 1
                ctx.traces(1)
                if (n, B, it) not in reach:
                    ctx.violation("C18:krylov:exit-not-in-model", f"a call with n={n}, block_size={B} returned after {it} iterations, which is not a reachable exit of Lanczos.tla", {"n": n, "b": B, "iters": it})
    ctx.notes["krylov_calls_checked_against_model"] = ntr
    # ---- SvdQn
    if tier == "quick":
        scopes = [dict(Comp=1, MaxLab=2, MaxLen=3, MaxQ=3), dict(Comp=2, MaxLab=1, MaxLen=2, MaxQ=2)]
    else:
        scopes = [dict(Comp=1, MaxLab=2, MaxLen=4, MaxQ=3), dict(Comp=2, MaxLab=1, MaxLen=3, MaxQ=2)]
    pats = []
    for sc in scopes:
        small = dict(sc, MaxLen=min(sc["MaxLen"], 3 if sc["Comp"] == 1 else 2))
        cfg = tlc.make_cfg(constants=small, spec="Spec", invariants=["ExactlyOnce", "OrderIndependent"], properties=["Terminates"])
        r = tlc.run("SvdQn", cfg, vacuity=True, timeout=3000)
        ctx.add_tlc(r, f"SvdQn sector loop {small}")
        if r["violated"]:
            ctx.violation(f"C18:spec:SvdQn:{r['violated']}", "SvdQn violates " + r["violated"], {"tlc": r.get("error_text", "")[:2000]})
        cfg = tlc.make_cfg(constants=sc, spec="Spec", invariants=["EmitPattern"], constraints=["NoExpand"])
        r = tlc.run("SvdQn", cfg, mode="emit", timeout=3000)
        ctx.add_tlc(r, f"SvdQn emit patterns {sc}")
        pats.extend(r["emitted"])
    items = list(enumerate(pats))
    if tier == "quick" and len(items) > 3000:
        import random
        items = random.Random(ctx.seed).sample(items, 3000)
    n = 64
    res = pmap(_svdqn_cases, [(items[i::n], ctx.seed) for i in range(n) if items[i::n]], chunksize=1)
    for st, o in res:
        if st != "ok":
            raise MachineryError("svd_qn worker failed: " + o)
        for c in o["cases"]:
            ctx.case(fingerprint="svd/" + c, nontrivial=True)
        for key, what, detail in o["viol"]:
            ctx.violation(key, what, detail)
    ctx.sample({"label_pattern_from_TLC": pats[len(pats) // 2]})
    ctx.sample({"krylov_case": "n=13 invariant subspace d=7 mixed by a random rotation, complex A, real v, dt=-0.31i, block_size=3"})
    ctx.cov["rule"] = ("Krylov: structured Hermitian matrices (random / diagonal / degenerate / rank-deficient / block-diagonal with a start vector in an invariant "
                       "subspace of every dimension) x sizes 1..40 x real/complex A x real/complex v x dt sign/phase x block sizes {1,2,3,5,7,50}; svd_qn/eigh_qn: every "
                       "label pattern enumerated by TLC (1-component labels 0..2 length <=3-4, 2-component labels {0,1}^2 length <=2-3, every Q) x SVD/QR x "
                       "full/economic x both systems x real/complex data; distinct = distinct configuration tuple")
    ctx.assumptions += ["Krylov accuracy threshold 1e-6 relative for ||A dt|| <= 4 (the routine's own convergence test is allclose(rtol=1e-5, atol=1e-8))"]
