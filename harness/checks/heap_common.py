"""Shared driver for the MpHeap-based checks (C03, C04, C06, C13): TLC design run, emission of behaviours
(exhaustive to a depth, or -simulate for deep random ones), seeded sampling, parallel replay."""
import json
import random

from .. import tlc
from ..common import pmap, MachineryError

ALL_ACTIONS = ["Copy", "Conj", "ScaleInplace", "Scale", "Add", "Sub", "Apply", "MoveQnidx", "Canonicalise",
               "CanonicaliseStop", "EnsureLeft", "EnsureRight", "CompressLossless", "CompressLosslessList", "ToComplexInplace"]
MPO_ACTIONS = ALL_ACTIONS + ["ConjTrans"]


def alphabet(names):
    return "{" + ", ".join(json.dumps(n) for n in names) + "}"


def consts(N, depth, actions=None, sector0=1, maxq=2, handles=3, ngens=2, maxops=2, maxcoef=4, minq=0, freshform="left"):
    return dict(MinQ=minq, FreshForm=json.dumps(freshform), N=N, Handles="{" + ", ".join(str(i) for i in range(1, handles + 1)) + "}", NGens=ngens, MaxOps=maxops,
                MaxCoef=maxcoef, Depth=depth, Sector0=sector0, MaxQ=maxq, Alphabet=alphabet(actions or ALL_ACTIONS))


def split_consts(c):
    """negative MinQ cannot be written in a cfg: substitute a module-level definition."""
    c = dict(c)
    subst = None
    if c.get("MinQ", 0) < 0:
        subst = {"MinQ": {-1: "NegOne", -2: "NegTwo"}[c.pop("MinQ")]}
    return c, subst


def design_run(ctx, c, label):
    c, subst = split_consts(c)
    cfg = tlc.make_cfg(constants=c, subst=subst, spec="Spec", invariants=["SectorInv", "GaugeInv", "NoZero"], properties=["Frame", "ValuePreserving"])
    r = tlc.run("MpHeap", cfg, vacuity=True, timeout=3000)
    ctx.add_tlc(r, label)
    if r["violated"]:
        ctx.violation(f"{ctx.pid}:spec:{r['violated']}", f"MpHeap design model violates {r['violated']} ({label})", {"tlc": r.get("error_text", "")[:3000]})
    return r


def emit_exhaustive(ctx, c, label):
    c, subst = split_consts(c)
    cfg = tlc.make_cfg(constants=c, subst=subst, spec="Spec", invariants=["EmitLeaf"])
    r = tlc.run("MpHeap", cfg, mode="emit", timeout=3000)
    ctx.add_tlc(r, "emit " + label)
    if not r["emitted"]:
        raise MachineryError("MpHeap emitted no behaviours")
    return r["emitted"]


def emit_simulate(ctx, c, num, label):
    c, subst = split_consts(c)
    cfg = tlc.make_cfg(constants=c, subst=subst, spec="Spec", invariants=["EmitLeafSim"])
    r = tlc.run("MpHeap", cfg, mode="simulate", simulate=num, depth=c["Depth"] + 2, seed=ctx.seed + 1, workers=1, timeout=3000)
    ctx.add_tlc(r, "simulate " + label)
    if not r["emitted"]:
        raise MachineryError("MpHeap -simulate emitted no behaviours")
    return r["emitted"]


def sample(cases, n, seed):
    if n is None or len(cases) <= n:
        return list(cases)
    rnd = random.Random(seed)
    return rnd.sample(cases, n)


def replay(ctx, cases, uspec, owned, nontrivial_rule=None, id_offset=0):
    """uspec = (fam, N, kind, sector0, seed, variant). Returns per-action counts."""
    from .. import replay_heap
    items = [(id_offset + i, c) for i, c in enumerate(cases)]
    n = 64
    chunks = [items[i::n] for i in range(n) if items[i::n]]
    res = pmap(replay_heap.replay_chunk, [(ch, uspec, owned, ctx.seed) for ch in chunks], chunksize=1)
    counts = {}
    pruned = steps = 0
    drift = 0
    bycid = dict(items)
    for st, r in res:
        if st != "ok":
            raise MachineryError("heap replay worker failed: " + r)
        for cid, out in r:
            case = bycid[cid]
            fp = json.dumps([uspec[:4], case["init"], [[e["a"], e["x"], e["y"], e["r"], e["o"], e["og"], e["k"]] for e in case["hist"]]])
            nt = out["nontrivial"] if nontrivial_rule is None else nontrivial_rule(case, out)
            ctx.case(fingerprint=fp, nontrivial=nt and not out["pruned"])
            pruned += 1 if out["pruned"] else 0
            steps += out["steps"]
            drift += len(out["drift"])
            for e in case["hist"][: out["steps"]]:
                counts[e["a"]] = counts.get(e["a"], 0) + 1
            for key, what, detail in out["viol"]:
                ctx.violation(key, what, detail)
    ctx.notes.setdefault("replay", []).append({"universe": list(map(str, uspec)), "behaviours": len(items), "actions_executed": steps,
                                               "pruned_zero_value": pruned, "metadata_drift_events": drift, "per_action": counts})
    return counts


def short(case):
    return {"init": case["init"], "hist": [{k: e[k] for k in ("a", "x", "y", "r", "o", "og", "k")} for e in case["hist"]],
            "expected_final": case["hist"][-1]["post"] if case["hist"] else None}
