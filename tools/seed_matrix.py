#!/usr/bin/env python3
"""tools/seed_matrix.py [ids...] : for every seeded change apply it to /repo, run the owning check (quick tier), undo it,
in a scratch worktree (VERIF_REPO), and record which violation keys fired in seeded/<id>/meta.json (`detected_by`) and in seeded/MATRIX.json.
Never leaves /repo dirty (git reset --hard in a finally block)."""
import json
import os
import re
import subprocess
import sys
import time

ROOT = os.path.dirname(os.path.dirname(os.path.abspath(__file__)))
SEEDED = os.path.join(ROOT, "seeded")


# a change seeded against one property may really break a neighbouring one (e.g. aliasing seeded under "arithmetic" is a frame violation)
ALT = {"C03": ["C13", "C04", "C06"], "C04": ["C03"], "C06": ["C03"], "C13": ["C03"], "C11": ["C13"], "C12": ["C13"], "C17": ["C01"], "C05": ["C04"], "C09": ["C13", "C05"], "C10": ["C13"]}


def sh(cmd, **kw):
    return subprocess.run(cmd, shell=True, capture_output=True, text=True, **kw)


WT = "/tmp/verif-seedrepo"          # scratch worktree: /repo itself is never touched (background runs may be using it)


def main():
    ids = sys.argv[1:] or sorted(d for d in os.listdir(SEEDED) if re.fullmatch(r"C\d\d-[A-F]", d))
    sh(f"git -C /repo worktree remove --force {WT}")
    if sh(f"git -C /repo worktree add --detach {WT} HEAD").returncode:
        print("cannot create the scratch worktree")
        return 2
    try:
        return run(ids)
    finally:
        sh(f"git -C /repo worktree remove --force {WT}")
        sh("rm -rf /tmp/verif-seed-evidence")


def run(ids):
    matrix_path = os.path.join(SEEDED, "MATRIX.json")
    matrix = json.load(open(matrix_path)) if os.path.exists(matrix_path) else {}
    for sid in ids:
        d = os.path.join(SEEDED, sid)
        prop = sid.split("-")[0]
        patch = os.path.join(d, "patch.adapted_to_fixed_protocol.diff")
        if not os.path.exists(patch):
            patch = os.path.join(d, "patch.diff")
        t0 = time.time()
        try:
            r = sh(f"git -C {WT} apply {patch}")
            if r.returncode:
                r = sh(f"git -C {WT} apply --3way {patch}")
            if r.returncode:
                matrix[sid] = {"check": prop, "applies": False, "error": r.stderr[-300:]}
                print(sid, "patch does not apply")
                continue
            tried = []
            for chk in [prop] + ALT.get(prop, []):
                r = sh(f"cd {ROOT} && VERIF_REPO={WT} VERIF_EVIDENCE_DIR=/tmp/verif-seed-evidence timeout 1700 ./check {chk} --tier quick")
                keys = sorted(set(re.findall(r"^\s+key=(\S+)", r.stdout, re.M)))
                known = sorted(set(re.findall(r"^KNOWN-FINDING: property=\S+ (\S+)", r.stdout, re.M)))
                keys = [k for k in keys if k not in known]
                tried.append({"check": chk, "exit": r.returncode})
                if r.returncode == 1:
                    break
            matrix[sid] = {"check": chk, "applies": True, "exit": r.returncode, "violation_keys": keys[:12], "wall_s": round(time.time() - t0, 1),
                           "patch": os.path.basename(patch), "tried": tried}
            print(sid, "check", chk, "exit", r.returncode, keys[:4], flush=True)
        finally:
            sh(f"git -C {WT} reset -q --hard HEAD")
        meta_path = os.path.join(d, "meta.json")
        meta = json.load(open(meta_path))
        m = matrix[sid]
        meta["detected_by"] = ({"check": f"./check {m.get('check')} --tier quick", "exit": m.get("exit"), "violation_keys": m.get("violation_keys")}
                               if m.get("applies") and m.get("exit") == 1 else {"check": f"./check {prop} --tier quick", "detected": False, "detail": m})
        json.dump(meta, open(meta_path, "w"), indent=1)
        json.dump(matrix, open(matrix_path, "w"), indent=1, sort_keys=True)
    return 0


if __name__ == "__main__":
    sys.exit(main())
