------------------------------ MODULE Bipartite ------------------------------
(* bipartite_vertex_cover / new_konig
   (renormalizer/lib/bipartite_matching/bipartite_matching.py:66-128).

   Init     : any bipartite graph on U x V and ANY maximum matching of it (the spec is wider than
              scipy's Hopcroft-Karp or the augmenting-path routine: whatever maximum matching they
              return is one of these).
   Pop(u)   : one iteration of `while len(wait_u) > 0` with u = wait_u.pop() -- set.pop() is arbitrary,
              so every pop order is explored.  The two in-code asserts are enabling conditions;
              AssertsHold says they can never block.
   Finish   : inverse = [not b for b in visitU]; return (inverse, visitV)                          *)
EXTENDS BipartiteDefs
VARIABLES edges, matchV, visitU, visitV, waitU, pc
vars == <<edges, matchV, visitU, visitV, waitU, pc>>

Init == /\ edges \in SUBSET (U \X V)
        /\ \E M \in SUBSET edges : IsMatching(edges, M) /\ Cardinality(M) = MaxMatchSize(edges) /\ matchV = AsMatchV(M)
        /\ visitU = {} /\ visitV = {}
        /\ waitU = U \ {matchV[v] : v \in V}        \* set(range(nU)) - set(matchV)
        /\ pc = "loop"

\* u = wait_u.pop(); visitU[u] = True; for v in bigraph[u]: if not visitV[v]: ...   (one loop iteration = one action)
Pop(u) == /\ pc = "loop" /\ u \in waitU
          /\ LET newV == {v \in V : <<u, v>> \in edges /\ v \notin visitV}
             IN /\ \A v \in newV : matchV[v] # 0                  \* assert matchV[v] is not None
                /\ \A v \in newV : matchV[v] \notin (waitU \ {u}) \* assert matchV[v] not in wait_u
                /\ visitV' = visitV \cup newV
                /\ waitU' = (waitU \ {u}) \cup {matchV[v] : v \in newV}
          /\ visitU' = visitU \cup {u}
          /\ UNCHANGED <<edges, matchV, pc>>
Finish == /\ pc = "loop" /\ waitU = {} /\ pc' = "done" /\ UNCHANGED <<edges, matchV, visitU, visitV, waitU>>
\* the asserts inside the loop must never fire: if a vertex is waiting, Pop must be enabled
AssertsHold == (pc = "loop") => \A u \in waitU : ENABLED Pop(u)

Next == (\E u \in U : Pop(u)) \/ Finish
Spec == Init /\ [][Next]_vars /\ WF_vars(Next)

CoverU == U \ visitU
CoverV == visitV
IsCover == \A e \in edges : e[1] \in CoverU \/ e[2] \in CoverV
Koenig == pc = "done" => /\ IsCover
                         /\ Cardinality(CoverU) + Cardinality(CoverV) = MaxMatchSize(edges)
                         /\ MaxMatchSize(edges) = MinCoverSizeOf(edges)
\* a vertex is visited at most once: the loop terminates after at most NU iterations
NoRevisit == [][\A u \in U : Pop(u) => u \notin visitU]_vars
Terminates == <>(pc = "done")

=============================================================================
