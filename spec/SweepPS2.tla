------------------------------- MODULE SweepPS2 -------------------------------
(* Mps._evolve_tdvp_ps2 (mps/mps.py): two half sweeps of two-site windows.  Per window: read L[lidx], R[ridx]; evolve the
   two-site tensor forward by dt/2; _update_mps splits it (centre moves on); unless it is the last window of the half
   sweep: GetLR(System) of the block that absorbed the finished site, evolve the next site BACKWARD by dt/2, _push_cano.
   Version stamps as in Sweep / SweepPS: L[i] summarises sites 0..i, R[i] sites i..N-1.                                *)
EXTENDS Integers, Sequences, FiniteSets, TLC, Json
CONSTANTS N
Sites == 0..(N - 1)
VARIABLES toRight, half, todo, ver, L, R, two, one, bad, evs
vars == <<toRight, half, todo, ver, L, R, two, one, bad, evs>>

\* iter_idx_list(full = FALSE) after ensure_right/left_canonical
IterIdx(tr) == IF tr THEN [k \in 1..(N - 1) |-> k - 1] ELSE [k \in 1..(N - 1) |-> N - k]
FreshL(l, v, i) == i < 0 \/ \A m \in 0..i : l[i][m] = v[m]
FreshR(r, v, i) == i > N - 1 \/ \A m \in i..(N - 1) : r[i][m] = v[m]
Bump(v, S) == [m \in Sites |-> IF m \in S THEN v[m] + 1 ELSE v[m]]

Init == /\ toRight \in BOOLEAN /\ half = 1
        /\ ver = [m \in Sites |-> 0]
        /\ L = [i \in Sites |-> [m \in Sites |-> 0]] /\ R = [i \in Sites |-> [m \in Sites |-> 0]]     \* Environ(mps, mpo): all fresh
        /\ two = [m \in Sites |-> 0] /\ one = [m \in Sites |-> 0] /\ bad = {} /\ evs = <<>>
        /\ todo = IterIdx(toRight)

Step ==
  /\ todo # <<>>
  /\ LET i == Head(todo)
         c0 == IF toRight THEN i ELSE i - 1
         c1 == c0 + 1
         lidx == c0 - 1
         ridx == c1 + 1
         last == IF toRight THEN i = N - 2 ELSE i = 1
         b2 == IF FreshL(L, ver, lidx) /\ FreshR(R, ver, ridx) THEN {} ELSE {<<"stale-2site", c0>>}
         v1 == Bump(ver, {c0, c1})                                           \* _update_mps
         e2 == << <<"read", "L", lidx>>, <<"read", "R", ridx>>, <<"ev", "+">>, <<"upd", c0, c1>> >>
     IN IF last
        THEN /\ ver' = v1 /\ bad' = bad \cup b2 /\ evs' = evs \o e2 /\ UNCHANGED <<L, R, one>>
        ELSE IF toRight
        THEN LET l1 == [L EXCEPT ![c0] = [m \in Sites |-> IF m = c0 THEN v1[c0] ELSE IF m < c0 /\ c0 > 0 THEN L[c0 - 1][m] ELSE 0]]
                 ok1 == FreshL(l1, v1, c0) /\ FreshR(R, v1, ridx)                \* backward step of site c1 between L[c0] and R[ridx]
                 v2 == Bump(v1, {c1} \cup (IF c1 + 1 <= N - 1 THEN {c1 + 1} ELSE {}))   \* mps[c1] = ... ; _push_cano(c1)
             IN /\ L' = l1 /\ R' = R /\ ver' = v2
                /\ bad' = bad \cup b2 \cup (IF ok1 THEN {} ELSE {<<"stale-1site", c1>>})
                /\ one' = [one EXCEPT ![c1] = @ + 1]
                /\ evs' = evs \o e2 \o << <<"sys", "L", c0>>, <<"ev", "-">> >>
        ELSE LET r1 == [R EXCEPT ![c1] = [m \in Sites |-> IF m = c1 THEN v1[c1] ELSE IF m > c1 /\ c1 < N - 1 THEN R[c1 + 1][m] ELSE 0]]
                 ok1 == FreshR(r1, v1, c1) /\ FreshL(L, v1, lidx)
                 v2 == Bump(v1, {c0} \cup (IF c0 - 1 >= 0 THEN {c0 - 1} ELSE {}))
             IN /\ R' = r1 /\ L' = L /\ ver' = v2
                /\ bad' = bad \cup b2 \cup (IF ok1 THEN {} ELSE {<<"stale-1site", c0>>})
                /\ one' = [one EXCEPT ![c0] = @ + 1]
                /\ evs' = evs \o e2 \o << <<"sys", "R", c1>>, <<"ev", "-">> >>
  /\ two' = [two EXCEPT ![IF toRight THEN Head(todo) ELSE Head(todo) - 1] = @ + 1,
                        ![IF toRight THEN Head(todo) + 1 ELSE Head(todo)] = @ + 1]
  /\ todo' = Tail(todo)
  /\ UNCHANGED <<toRight, half>>

Switch == /\ todo = <<>> /\ half <= 2
          /\ toRight' = ~toRight /\ half' = half + 1
          /\ todo' = IF half = 1 THEN IterIdx(~toRight) ELSE <<>>
          /\ two' = [m \in Sites |-> 0] /\ one' = [m \in Sites |-> 0]
          /\ UNCHANGED <<ver, L, R, bad, evs>>
Next == Step \/ Switch
Spec == Init /\ [][Next]_vars

EnvFresh == bad = {}
\* per half sweep every site tensor receives net forward time exactly once: (#two-site evolutions it is part of) - (#backward one-site steps) = 1
NetTime == (todo = <<>> /\ half <= 2) => \A m \in Sites : two[m] - one[m] = 1
EmitSchedule == (half = 3) => PrintT(<<"EMIT", ToJson([n |-> N, start |-> (IF toRight THEN "R" ELSE "L"), events |-> evs])>>)
=============================================================================
