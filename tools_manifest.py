#!/usr/bin/env python3
"""Regenerate MANIFEST.json from the table below (keeps it valid at all times)."""
import json, os
HERE = os.path.dirname(os.path.abspath(__file__))
BASE = "cd /repo && env -u RENORMALIZER_VERIF /venv/bin/python -m pytest -ra -q -p no:cacheprovider --timeout=900 --continue-on-collection-errors"
props = [json.loads(l) for l in open(os.path.join(HERE, "properties.jsonl"))]
from manifest_table import CHECKS, NOT_YET
checks = []
for pid, c in CHECKS.items():
    checks.append({
        "property_id": pid,
        "quick_cmd": f"./check {pid} --tier quick",
        "thorough_cmd": f"./check {pid} --tier thorough",
        "evidence_file": f"/verif/evidence/{pid}.json",
        "replay_cmd_template": f"./check {pid} --replay {{path}}",
        "engine": c.get("engine", "tlc+replay"),
        "level_claimed": {"category": c["category"], "text": c["text"], "design_ref": c.get("design_ref", f"DESIGN.md section 5, {pid}")},
        "level_note": c["note"],
        "technique": c["technique"],
    })
na = [{"property_id": p["id"], "reason": NOT_YET.get(p["id"], "check not built yet in this round (planned, see DESIGN.md section 5)")}
      for p in props if p["id"] not in CHECKS]
m = {
    "version": 1,
    "setup_cmd": "./setup.sh",
    "hooks": {"guard": "RENORMALIZER_VERIF",
              "enable": "no hook exists in the repository: every recorder is a harness-side wrapper installed around one call and removed in a finally block (ChainRecorder, TreeRecorder, SweepRecorder, PsRecorder, CoverRecorder, the file-system proxies of replay_dump, a logging handler for the adaptive controllers); the guard RENORMALIZER_VERIF is reserved and never read, so the baseline runs with it unset",
              "baseline_off_cmd": BASE,
              "source_commits": [],
              "add_only": True},
    "engines": [
        {"name": "tlc", "path": "harness/tlc.py", "serves_properties": sorted(CHECKS), "kind_free_text": "TLC 1.8 exhaustive / simulate / trace-batch runs on spec/*.tla"},
        {"name": "replay", "path": "harness/", "serves_properties": sorted(CHECKS), "kind_free_text": "Python harness: concretises TLC-emitted cases, drives the real library, dense oracle; records traces for TLC"},
    ],
    "checks": checks,
    "not_applicable": na,
    "notes": "One TLA+ specification per mechanism under spec/. Every check = TLC on the design model + spec->code replay of TLC-emitted cases + code->spec judgement of recorded artefacts by TLC. Findings protocol: known_findings.json.",
}
json.dump(m, open(os.path.join(HERE, "MANIFEST.json"), "w"), indent=1)
print("checks:", sorted(CHECKS), "not_applicable:", [x["property_id"] for x in na])
