------------------------------- MODULE TreeOpt -------------------------------
(* tn/gs.py: optimize_ttns / optimize_recursion (two-site DMRG on a tree) and tn/time_evolution.py:
   _tdvp_ps2_recursion_forward / _backward (two-site projector splitting) on EVERY increasing tree with K nodes.
   The recursion is unrolled by a RECURSIVE operator into the instruction list the Python recursion executes (it depends on
   the tree only); a machine executes it one instruction per step on version-stamped tensors and environments
   (same stamp model as TreeSweep), so a local problem that consumes a stale environment is recorded in `bad`.     *)
EXTENDS Integers, Sequences, FiniteSets, TLC, Json
CONSTANTS K, Mode, Bug            \* Mode \in {"dmrg", "ps2"};  Bug = "none" or a regression mode
Nodes == 1..K
VARIABLES par, prog, pc, ver, cst, pst, centre, bad, two, one, evs
vars == <<par, prog, pc, ver, cst, pst, centre, bad, two, one, evs>>

RECURSIVE Anc(_, _)
Anc(p, n) == IF n = 1 THEN {1} ELSE {n} \cup Anc(p, p[n])
SubP(p, n) == {m \in Nodes : n \in Anc(p, m)}
ChildSetP(p, n) == {m \in Nodes : m # 1 /\ p[m] = n}
ChildrenP(p, n) == LET S == ChildSetP(p, n) IN
                   CHOOSE s \in [1..Cardinality(S) -> S] : \A i, j \in 1..Cardinality(S) : i < j => s[i] < s[j]
Sub(n) == SubP(par, n)
Out(n) == Nodes \ Sub(n)
ChildSet(n) == ChildSetP(par, n)

I(op, a, b) == [op |-> op, a |-> a, b |-> b]

RECURSIVE Cat(_, _, _)
Cat(f(_), seq, i) == IF i > Len(seq) THEN <<>> ELSE f(seq[i]) \o Cat(f, seq, i + 1)

\* ---- optimize_recursion(snode)
RECURSIVE Dmrg(_, _)
Dmrg(p, s) ==
  LET one_child(ch) ==
        (IF ChildSetP(p, ch) # {}
         THEN <<I("opt2", ch, 0), I("upd2", ch, 0), I("env2", ch, 0)>> \o Dmrg(p, ch)
         ELSE <<>>)
        \o <<I("opt2", ch, 0), I("upd2", ch, 1), I("env2", ch, 0)>>
  IN Cat(one_child, ChildrenP(p, s), 1)

\* ---- _tdvp_ps2_recursion_forward(snode)
RECURSIVE Ps2F(_, _)
Ps2F(p, s) ==
  LET kids == ChildrenP(p, s)
      one_child(ch) ==
        (IF ChildSetP(p, ch) # {}
         THEN <<I("pushC", s, ch), I("env1b", ch, 0)>> \o Ps2F(p, ch)
         ELSE <<>>)
        \o <<I("ev2", ch, 0), I("upd2", ch, 1), I("env2", ch, 0)>>
        \o (IF s = 1 /\ ch = kids[Len(kids)] THEN <<>> ELSE <<I("ev1", s, 0), I("setT", s, 0), I("env1s", s, 0)>>)
  IN Cat(one_child, kids, 1)

Rev(seq) == [i \in 1..Len(seq) |-> seq[Len(seq) + 1 - i]]
\* ---- _tdvp_ps2_recursion_backward(snode)
RECURSIVE Ps2B(_, _)
Ps2B(p, s) ==
  LET kids == ChildrenP(p, s)
      one_child(ch) ==
        (IF s = 1 /\ ch = kids[Len(kids)] THEN <<>> ELSE <<I("ev1", s, 0), I("setT", s, 0), I("env1s", s, 0)>>)
        \o <<I("ev2", ch, 0), I("upd2", ch, IF ChildSetP(p, ch) = {} THEN 1 ELSE 0), I("env2", ch, 0)>>
        \o (IF ChildSetP(p, ch) # {}
            THEN Ps2B(p, ch) \o <<I("pushP", ch, 0), I("env1b", ch, 0)>>
            ELSE <<>>)
  IN Cat(one_child, Rev(kids), 1)

Program(p) == IF Mode = "dmrg" THEN Dmrg(p, 1) \o <<I("sweep-end", 0, 0)>> \o Dmrg(p, 1) \o <<I("sweep-end", 0, 0)>>
              ELSE Ps2F(p, 1) \o <<I("half", 0, 0)>> \o Ps2B(p, 1) \o <<I("half", 0, 0)>>

\* ---- stamps
FreshC(n) == \A m \in Sub(n) : cst[n][m] = ver[m]
FreshP(n) == \A m \in Out(n) : pst[n][m] = ver[m]
BuildC(v, c, n) == [m \in Nodes |-> IF m = n THEN v[n]
                                    ELSE IF \E ch \in ChildSet(n) : m \in Sub(ch)
                                         THEN c[CHOOSE ch \in ChildSet(n) : m \in Sub(ch)][m] ELSE 0]
BuildP(v, c, p, s, ch) == [m \in Nodes |-> IF m = s THEN v[s]
                                    ELSE IF m \in Out(s) THEN p[s][m]
                                    ELSE IF \E o \in ChildSet(s) \ {ch} : m \in Sub(o)
                                         THEN c[CHOOSE o \in ChildSet(s) \ {ch} : m \in Sub(o)][m] ELSE 0]
Bump(v, S) == [m \in Nodes |-> IF m \in S THEN v[m] + 1 ELSE v[m]]
Reads1(n) == (\A ch \in ChildSet(n) : FreshC(ch)) /\ FreshP(n)
\* hop_expr2(ch): children environments of ch, the other children environments of its parent, the parent environment of the parent
Reads2(ch) == /\ \A o \in ChildSet(ch) : FreshC(o)
              /\ \A o \in ChildSet(par[ch]) \ {ch} : FreshC(o)
              /\ FreshP(par[ch])

RECURSIVE PFold(_, _, _, _, _)
\* build_parent_environ_node(s, ichild) for every child in order (each uses the stored parent environment of s)
PFold(v, c, p, s, kids) == IF kids = <<>> THEN p
                           ELSE PFold(v, c, [p EXCEPT ![kids[1]] = BuildP(v, c, p, s, kids[1])], s, Tail(kids))
Children(n) == ChildrenP(par, n)

Init == /\ par \in {p \in [Nodes -> 0..K] : p[1] = 0 /\ \A n \in Nodes \ {1} : p[n] \in 1..(n-1)}
        /\ prog = Program(par) /\ pc = 1
        /\ ver = [n \in Nodes |-> 0]
        /\ cst = [n \in Nodes |-> [m \in Nodes |-> 0]] /\ pst = [n \in Nodes |-> [m \in Nodes |-> 0]]
        /\ centre = 1 /\ bad = {} /\ two = [n \in Nodes |-> 0] /\ one = [n \in Nodes |-> 0] /\ evs = <<>>

Exec ==
  /\ pc <= Len(prog)
  /\ LET ins == prog[pc]  a == ins.a  b == ins.b  o == ins.op IN
     /\ pc' = pc + 1
     /\ CASE o \in {"opt2", "ev2"} ->
              /\ bad' = IF Reads2(a) /\ centre \in {a, par[a]} THEN bad ELSE bad \cup {<<pc, o, a>>}
              /\ two' = [two EXCEPT ![a] = @ + 1, ![par[a]] = @ + 1]
              /\ evs' = Append(evs, <<o, a, 0>>)
              /\ UNCHANGED <<ver, cst, pst, centre, one>>
          [] o = "upd2" ->
              /\ ver' = Bump(ver, {a, par[a]})
              /\ centre' = IF b = 1 THEN par[a] ELSE a
              /\ evs' = Append(evs, <<o, a, b>>)
              /\ UNCHANGED <<cst, pst, bad, two, one>>
          [] o = "env2" ->
              LET c1 == IF Bug = "env2-skips-node" THEN cst ELSE [cst EXCEPT ![a] = BuildC(ver, cst, a)]
                  c2 == [c1 EXCEPT ![par[a]] = BuildC(ver, c1, par[a])]
                  p1 == PFold(ver, c2, pst, par[a], Children(par[a]))
                  p2 == PFold(ver, c2, p1, a, Children(a))
              IN /\ cst' = c2 /\ pst' = p2 /\ UNCHANGED <<ver, centre, bad, two, one, evs>>
          [] o = "ev1" ->
              /\ bad' = IF Reads1(a) /\ centre = a THEN bad ELSE bad \cup {<<pc, o, a>>}
              /\ one' = [one EXCEPT ![a] = @ + 1]
              /\ evs' = Append(evs, <<o, a, 0>>)
              /\ UNCHANGED <<ver, cst, pst, centre, two>>
          [] o = "setT" -> /\ ver' = Bump(ver, {a}) /\ UNCHANGED <<cst, pst, centre, bad, two, one, evs>>
          [] o = "env1s" ->
              LET c1 == [cst EXCEPT ![a] = BuildC(ver, cst, a)] IN
              /\ cst' = c1 /\ pst' = PFold(ver, c1, pst, a, Children(a)) /\ UNCHANGED <<ver, centre, bad, two, one, evs>>
          [] o = "pushC" ->
              /\ bad' = IF centre = a THEN bad ELSE bad \cup {<<pc, o, a>>}
              /\ ver' = Bump(ver, {a, b}) /\ centre' = b /\ UNCHANGED <<cst, pst, two, one, evs>>
          [] o = "pushP" ->
              /\ bad' = IF centre = a THEN bad ELSE bad \cup {<<pc, o, a>>}
              /\ ver' = Bump(ver, {a, par[a]}) /\ centre' = par[a] /\ UNCHANGED <<cst, pst, two, one, evs>>
          [] o = "env1b" ->
              LET c1 == [cst EXCEPT ![a] = BuildC(ver, cst, a)] IN
              /\ cst' = c1
              /\ pst' = IF Bug = "env1b-child-only" THEN pst ELSE [pst EXCEPT ![a] = BuildP(ver, c1, pst, par[a], a)]
              /\ UNCHANGED <<ver, centre, bad, two, one, evs>>
          [] o \in {"half", "sweep-end"} ->
              /\ evs' = Append(evs, <<o, 0, 0>>)
              /\ two' = [n \in Nodes |-> 0] /\ one' = [n \in Nodes |-> 0]
              /\ UNCHANGED <<ver, cst, pst, centre, bad>>
  /\ UNCHANGED <<par, prog>>

Next == Exec
Spec == Init /\ [][Next]_vars

EnvFresh == bad = {}
AtBoundary == pc <= Len(prog) /\ prog[pc].op \in {"half", "sweep-end"}
\* at the end of a DMRG sweep / a PS2 half step the centre is back at the root
CentreHome == AtBoundary => centre = 1
\* DMRG: the bond above a node is optimised twice per sweep if the node has children (descending and returning), once for a leaf
Own(n) == IF n = 1 THEN 0 ELSE IF ChildSet(n) = {} THEN 1 ELSE 2
AsParent(n) == Cardinality({c \in ChildSet(n) : ChildSet(c) = {}}) + 2 * Cardinality({c \in ChildSet(n) : ChildSet(c) # {}})
DmrgCoverage == (Mode = "dmrg" /\ AtBoundary) => \A n \in Nodes : two[n] = Own(n) + AsParent(n)
\* PS2: per half step every tensor receives net forward time exactly once: (#two-site evolutions) - (#one-site backward evolutions) = 1
NetTime == (Mode = "ps2" /\ AtBoundary) => \A n \in Nodes : two[n] - one[n] = 1

Done == pc > Len(prog)
EmitSchedule == Done =>
   PrintT(<<"EMIT", ToJson([par |-> [n \in Nodes |-> par[n] - 1], mode |-> Mode,
                            events |-> [i \in 1..Len(evs) |-> <<evs[i][1], evs[i][2] - 1, evs[i][3]>>]])>>)
=============================================================================
