#!/bin/sh
# tools/run_seeds.sh <seed> [<seed> ...] : quick tier of every check under each seed (false-alarm hunt on the unchanged tree)
cd "$(dirname "$0")/.." || exit 2
for s in "$@"; do
  for c in C19 C16 C07 C17 C18 C14 C05 C12 C11 C08 C20 C03 C15 C01 C02 C13 C04 C06 C09 C10; do
    VERIF_SEED=$s ./check $c --tier quick > out_seed$s.$c.log 2>&1; rc=$?
    echo "seed=$s $c rc=$rc :: $(grep -E '^\[C' out_seed$s.$c.log | tail -1 | cut -c1-160)"
    [ $rc -ne 0 ] && grep -E "^  key=|MACHINERY" out_seed$s.$c.log | head -5 | cut -c1-400
  done
done
