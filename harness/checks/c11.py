"""C11 — tree tensor network states behave as dense vectors for every topology.

TtnHeap.tla (the tree counterpart of MpHeap) is explored by TLC for all histories of depth <= 3; its behaviours are
replayed on EVERY tree emitted by TtnoColumns (all rooted ordered trees with <= 4-5 nodes x 1-2 basis sets per node x
dummy nodes), plus one-node trees and the constructors' trees, and on the MIRROR image of each tree (children of every
node listed in reverse order, the state transported by transposing the child axes): values, quantum numbers, sector,
isometries after canonicalise / compress, bond growth, frame, norms, expectation values, 1-site / 1-dof / 2-dof RDMs
(every ordered pair) and entropies are compared with dense results obtained by an independent contraction.
Converting a chain state to a tree state (from_mps) is compared densely.
"""
import json
import random

import numpy as np

from .. import tlc
from ..common import pmap, MachineryError, bootstrap, rng_for

LEVEL = "model_checking"
OWNED = ("C11",)


def consts(depth):
    return dict(Handles="{1, 2, 3}", NGens=2, MaxOps=2, MaxCoef=4, Depth=depth, Sector0=1, MaxQ=3)


def emit_behaviours(ctx, tier):
    cfg = tlc.make_cfg(constants=consts(3), spec="Spec", invariants=["SectorInv"], properties=["Frame", "ValuePreserving"])
    r = tlc.run("TtnHeap", cfg, vacuity=True, timeout=3000)
    ctx.add_tlc(r, "TtnHeap all histories of depth 3")
    if r["violated"]:
        ctx.violation(f"{ctx.pid}:spec:{r['violated']}", "TtnHeap violates " + r["violated"], {"tlc": r.get("error_text", "")[:2000]})
    out = []
    for d in (1, 2):
        cfg = tlc.make_cfg(constants=consts(d), spec="Spec", invariants=["EmitLeaf"])
        e = tlc.run("TtnHeap", cfg, mode="emit", timeout=3000)
        ctx.add_tlc(e, f"emit histories depth {d}")
        out.append(e["emitted"])
    cfg = tlc.make_cfg(constants=consts(2), spec="Spec", invariants=["EmitDeriveMutate"])
    e = tlc.run("TtnHeap", cfg, mode="emit", timeout=3000)
    ctx.add_tlc(e, "emit every derive-then-mutate history of depth 2")
    derive_mutate = e["emitted"]
    cfg = tlc.make_cfg(constants=consts(4), spec="Spec", invariants=["EmitLeafSim"])
    e = tlc.run("TtnHeap", cfg, mode="simulate", simulate=300 if tier == "quick" else 3000, depth=6, seed=ctx.seed + 5, workers=1, timeout=3000)
    ctx.add_tlc(e, "simulate histories depth 4")
    out.append(e["emitted"])
    out.append(derive_mutate)
    return out


def emit_trees(ctx, tier):
    from . import c02  # noqa
    trees_ = [{"par": [-1], "nsets": [2], "dummy": [False]}]       # one-node tree with two basis sets
    for K in ((2, 3, 4) if tier == "quick" else (2, 3, 4, 5)):
        cfg = tlc.make_cfg(constants=dict(K=K, MaxSets=2), spec="Spec", invariants=["EmitTree"], constraints=["NoExpand"])
        e = tlc.run("TtnoColumns", cfg, mode="emit", timeout=3000)
        ctx.add_tlc(e, f"emit trees K={K}")
        for t in e["emitted"]:
            P = sum(0 if d else n for n, d in zip(t["nsets"], t["dummy"]))
            if 2 <= P <= 5:
                trees_.append(t)
    return trees_


def _from_mps_cases(args):
    bootstrap()
    from renormalizer.tn.tree import from_mps
    from .. import states as st, trees
    seed, k = args
    out = {"cases": [], "viol": []}
    fam = ["elec", "eph", "qn2", "multi"][k % 4]
    N = 3 + k % 3
    from .. import replay_heap
    from ..replay_mpo import build_ops
    from renormalizer.model import Model
    uni = replay_heap.get_universe(fam if fam != "qn2" else "qn2x", N, "mps", 1, seed, 70 + k % 2)
    basis, alphas = uni.basis, uni.alphas
    model = Model(list(basis), build_ops(uni.terms["H"], basis, alphas, {}, None, uni.qn_size))
    for cplx in (False, True):
        coeff = [None, 0.7, -1.2][(k + cplx) % 3]
        detail = {"family": fam, "N": N, "complex": cplx, "k": k, "coeff": coeff}
        try:
            m = st.random_mps(model, st.best_sector(basis), 4, (seed, "frommps", k), cplx=cplx, coeff=coeff).scale(1.4)
            ref = st.dense(m)
            bt, ttns, ttno = from_mps(m)
            # the returned operator is the model Hamiltonian on the linear tree
            Hd = trees.dense_operator(ttno, order=list(basis))
            if np.linalg.norm(Hd - uni.dense_op["H"]) > 1e-9 * (np.linalg.norm(Hd) + 1):
                out["viol"].append(("C11:from_mps:operator", "the TTNO returned by from_mps differs from the model Hamiltonian", detail))
            out["cases"].append(json.dumps(detail))
            got = trees.dense(ttns, order=list(basis))
            if np.linalg.norm(got.reshape(-1) - ref.reshape(-1)) > 1e-10 * (np.linalg.norm(ref) + 1):
                cls = "prefactor-dropped" if (coeff is not None and np.linalg.norm(got.reshape(-1) * coeff - ref.reshape(-1)) < 1e-9 * (np.linalg.norm(ref) + 1)) else "general"
                out["viol"].append((f"C11:from_mps:{cls}", f"converting a chain state to a tree state changed it by {np.linalg.norm(got.reshape(-1) - ref.reshape(-1)):.2e}", detail))
        except Exception as e:
            out["viol"].append((f"C11:from_mps-raises:{type(e).__name__}", f"{type(e).__name__}: {e}", detail))
    return out


def _tree_path_cases(cases):
    """TreePath.tla -> code: Tree.find_path and the environments calc_2site_rdm contracts, for every emitted (tree, n1, n2).
    C11 constrains the RESULT (the RDM, compared with the dense partial trace in replay_tree and again here), so a different
    path or environment selection is SPEC-DRIFT; only a wrong RDM is a violation."""
    bootstrap()
    from renormalizer.tn import BasisTree, TTNS
    from renormalizer.tn import tree as tree_mod
    from renormalizer.tn.node import TreeNodeBasis
    from renormalizer.model import basis as ba
    from .. import trees
    out = {"cases": [], "viol": [], "drift": [], "rejected_corrupted": 0}
    rec = []
    orig_init = tree_mod.TTNEnviron.__init__
    orig_child = tree_mod.TTNEnviron.get_child_indices
    orig_parent = tree_mod.TTNEnviron.get_parent_indices

    def init(self, *a, **k):
        r = orig_init(self, *a, **k)
        try:
            self._verif_ready = True
        except Exception:
            pass
        return r

    def child(self, enode, i, *a, **k):
        try:
            if getattr(self, "_verif_ready", False):
                rec.append(("child", self.node_idx[enode], self.node_idx[enode.children[i]]))
        except Exception:
            rec.append(("unobserved", -1, -1))
        return orig_child(self, enode, i, *a, **k)

    def parent(self, enode, *a, **k):
        try:
            if getattr(self, "_verif_ready", False):
                rec.append(("parent", self.node_idx[enode], -1))
        except Exception:
            rec.append(("unobserved", -1, -1))
        return orig_parent(self, enode, *a, **k)

    tree_mod.TTNEnviron.__init__ = init
    tree_mod.TTNEnviron.get_child_indices = child
    tree_mod.TTNEnviron.get_parent_indices = parent
    try:
        cache = {}
        for c in cases:
            par = c["par"]
            K = len(par)
            cid = f"path/{''.join(str(x + 1) for x in par)}/{c['a']}-{c['b']}"
            out["cases"].append(cid)
            key = tuple(par)
            if key not in cache:
                nodes = [TreeNodeBasis([ba.BasisHalfSpin(i)]) for i in range(K)]
                for i in range(1, K):
                    nodes[par[i]].add_child(nodes[i])
                bt = BasisTree(nodes[0])
                tn = TTNS.random(bt, 0, 3)
                tn = tn.to_complex(inplace=False) if hasattr(tn, "to_complex") else tn
                pre = [bt.node_idx[n] for n in nodes]        # TLC id -> preorder index
                inv = {p_: k for k, p_ in enumerate(pre)}
                order = [None] * K
                for k in range(K):
                    order[pre[k]] = bt.node_list[pre[k]].basis_sets[0]
                psi = np.asarray(trees.dense(tn, order=[nodes[k].basis_sets[0] for k in range(K)])).reshape([2] * K)
                nrm = np.linalg.norm(psi)
                tn = tn.scale(1.0 / nrm) if nrm > 1e-12 else tn
                cache[key] = (tn, pre, inv, psi / nrm if nrm > 1e-12 else None)
            tn, pre, inv, psi = cache[key]
            i1, i2 = pre[c["a"]], pre[c["b"]]
            try:
                got_path = [inv[tn.node_idx[n]] for n in tn.find_path(tn.node_list[i1], tn.node_list[i2])]
                del rec[:]
                rdm = np.asarray(tn.calc_2site_rdm((i1, i2))[(i1, i2)])
                got_envs = sorted([kind, inv[x], inv[y] if y >= 0 else -1] for kind, x, y in rec)
            except Exception as e:
                out["viol"].append((f"C11:rdm:2site-raises:{type(e).__name__}", f"{cid}: calc_2site_rdm(({i1},{i2})) raised {type(e).__name__}: {e}", {"case": c}))
                continue
            exp_envs = sorted([list(e) for e in c["envs"]])
            if c.get("_corrupted"):
                out["rejected_corrupted"] += int(got_path != c["path"] or got_envs != exp_envs)
                continue
            if got_path != c["path"]:
                out["drift"].append(("C11:path:find_path", f"{cid}: find_path returned {got_path}, TreePath.tla specifies {c['path']}", {"case": c}))
            elif got_envs != exp_envs:
                out["drift"].append(("C11:path:environments", f"{cid}: calc_2site_rdm contracted the environments {got_envs}, TreePath.tla specifies {exp_envs}", {"case": c}))
            if psi is not None:
                L = "abcdefgh"[:K]
                U = L.upper()
                a_, b_ = c["a"], c["b"]
                sub = "".join(U[x] if x in (a_, b_) else L[x] for x in range(K))
                rho = np.einsum(f"{L},{sub}->{L[a_]}{L[b_]}{U[a_]}{U[b_]}", psi, psi.conj())
                if rdm.shape != rho.shape or np.linalg.norm(rdm - rho) > 1e-8:
                    out["viol"].append(("C11:rdm:2site:path", f"{cid}: calc_2site_rdm differs from the dense partial trace by "
                                        f"{np.linalg.norm(rdm - rho) if rdm.shape == rho.shape else 'shape ' + str(rdm.shape)}", {"case": c}))
    finally:
        tree_mod.TTNEnviron.__init__ = orig_init
        tree_mod.TTNEnviron.get_child_indices = orig_child
        tree_mod.TTNEnviron.get_parent_indices = orig_parent
    return out


def tree_paths(ctx):
    K = 5 if ctx.tier == "quick" else 6
    cfg = tlc.make_cfg(constants=dict(K=K, Bug='"none"'), spec="Spec", invariants=["IsPath", "Shortest", "ExactCover", "EmitPath"])
    r = tlc.run("TreePath", cfg, mode="emit", vacuity=True, timeout=3000)
    ctx.add_tlc(r, f"TreePath K={K}: every increasing tree x every ordered pair of nodes: find_path and the environments of calc_2site_rdm")
    if r["violated"]:
        ctx.violation(f"C11:spec:TreePath:{r['violated']}", "TreePath violates " + r["violated"], {"tlc": (r.get("error_text") or "")[:2000]})
    b = tlc.run("TreePath", tlc.make_cfg(constants=dict(K=4, Bug='"keep-parent"'), spec="Spec", invariants=["ExactCover"]), timeout=600, expect_violation=True)
    ctx.add_tlc(b, "regression (must fail): TreePath without skip_parent")
    if b["violated"] != "ExactCover":
        raise MachineryError("TreePath regression keep-parent did not violate ExactCover")
    cases = r["emitted"]
    if len(cases) < 100:
        raise MachineryError("TreePath emitted too few cases")
    import copy
    bad = []
    for c in cases[:: max(1, len(cases) // 30)]:
        x = copy.deepcopy(c)
        x["_corrupted"] = True
        x["path"] = x["path"][::-1]
        bad.append(x)
    allc = sorted(cases + bad, key=lambda c: c["par"])
    n = 16
    size = (len(allc) + n - 1) // n
    rejected = 0
    for st_, o in pmap(_tree_path_cases, [allc[i:i + size] for i in range(0, len(allc), size)], chunksize=1):
        if st_ != "ok":
            raise MachineryError("tree-path worker failed: " + o)
        for c in o["cases"]:
            ctx.case(fingerprint=c, nontrivial=True)
        for key, what, detail in o["viol"]:
            ctx.violation(key, what, detail)
        for key, what, detail in o["drift"]:
            ctx.drift(key, what, detail)
        rejected += o["rejected_corrupted"]
    if rejected != len(bad):
        raise MachineryError(f"binding demonstration failed: {len(bad) - rejected} corrupted paths were accepted")
    ctx.notes["tree_path_binding_demo"] = {"corrupted_copies": len(bad), "rejected": rejected}


def run(ctx, owned=OWNED):
    from .. import replay_tree, trees
    from .. import concretize as cz
    tier = ctx.tier
    beh = emit_behaviours(ctx, tier)
    trs = emit_trees(ctx, tier)
    rnd = random.Random(ctx.seed)
    if tier == "quick" and len(trs) > 70:
        trs = [trs[0]] + rnd.sample(trs[1:], 69)
    elif tier == "thorough" and len(trs) > 600:
        # every tree x 44 behaviours x 2 universes took more than 2.5 h of 16 cores; 600 trees x 28 behaviours stay within ~20 min
        trs = [trs[0]] + rnd.sample(trs[1:], 599)
    per = (4, 5, 3) if tier == "quick" else (8, 12, 8)
    jobs = []
    jid = 0
    fams = ["elec", "eph", "spin", "multi"]
    for ti, t in enumerate(trs):
        sets = [0 if d else n for n, d in zip(t["nsets"], t["dummy"])]
        tcase = trees.make_case(t["par"], sets, fams[ti % len(fams)], variant=ti % 3)
        picks = rnd.sample(beh[0], min(per[0], len(beh[0]))) + rnd.sample(beh[1], min(per[1], len(beh[1]))) + rnd.sample(beh[2], min(per[2], len(beh[2])))
        if ti % max(1, len(trs) // 4) == 1:
            picks = picks + list(beh[3])          # every derive-then-mutate history on ~4 of the trees
        for case in picks:
            jobs.append((jid, tcase, case))
            jid += 1
    n = 64
    res = pmap(replay_tree.replay_chunk, [(jobs[i::n], ctx.seed, owned) for i in range(n) if jobs[i::n]], chunksize=1)
    byid = {j[0]: j for j in jobs}
    pruned = steps = 0
    for st_, o in res:
        if st_ != "ok":
            raise MachineryError("tree replay worker failed: " + o)
        for jid_, uni, out in o:
            _, tcase, case = byid[jid_]
            ctx.case(fingerprint=json.dumps([tcase["desc"], uni, [[e["a"], e["x"], e["y"], e["r"], e["o"], e["k"]] for e in case["hist"]]]),
                     nontrivial=out["nontrivial"] and not out["pruned"])
            pruned += 1 if out["pruned"] else 0
            steps += out["steps"]
            for key, what, detail in out["viol"]:
                ctx.violation(key, what, detail)
    ctx.notes["tree_replay"] = {"trees": len(trs), "behaviours_per_tree": sum(per), "jobs_x2_universes": len(jobs), "actions_executed": steps, "pruned": pruned}
    if ctx.pid == "C11":
        tree_paths(ctx)
        res = pmap(_from_mps_cases, [(ctx.seed, k) for k in range(8 if tier == "quick" else 32)], chunksize=1)
        for st_, o in res:
            if st_ != "ok":
                raise MachineryError("from_mps worker failed: " + o)
            for c in o["cases"]:
                ctx.case(fingerprint="frommps" + c, nontrivial=True)
            for key, what, detail in o["viol"]:
                ctx.violation(key, what, detail)
    ctx.sample({"tree_from_TLC": trs[len(trs) // 2], "history_from_TLC": [[e["a"], e["x"], e["y"], e["r"], e["o"], e["k"]] for e in beh[1][len(beh[1]) // 2]["hist"]]})
    ctx.traces(0)
    ctx.cov["rule"] = ("(tree, universe A / mirrored universe B, history): trees = every rooted ordered tree with <= 4 (thorough 5) nodes x 1-2 basis sets per node x dummy "
                       "placements from TLC (quick: one-node tree + 69 sampled), histories = all of depth 1, sampled of depth 2 and simulated depth 4 from TtnHeap; "
                       "4 model families; non-trivial = contains Add/Apply and not pruned for a zero value; distinct = distinct triple")
    ctx.assumptions += ["dense values are contracted by the harness (trees.dense), not by TTNS.todense", "TTNO operators are certified by C02"]
