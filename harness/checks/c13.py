"""C13 — operations return new objects and never disturb their inputs (MpHeap frame property)."""
from . import c03

LEVEL = "model_checking"
OWNED = ("C13",)


def _contract_probe(args):
    """operator x state through every contraction algorithm: neither the operator nor the state handed in may change
    (long-range operators whose bond dimension exceeds the default size of the variational initial guess)."""
    from ..common import bootstrap, rng_for, reseed_global
    bootstrap()
    import json
    import numpy as np
    from renormalizer.model import Model, Op, basis as ba
    from renormalizer.mps import Mps, Mpo
    from renormalizer.utils import CompressConfig, CompressCriteria
    from .. import states as st
    seed, k = args
    out = {"cases": [], "viol": []}
    rng = rng_for(seed, "c13-contract", k)
    n = 5 + k % 2
    basis = [ba.BasisHalfSpin(i) for i in range(n)]
    terms = []
    for i in range(n):
        terms.append(Op("sigma_z", i, float(rng.normal())))
        for j in range(i + 1, n):
            terms.append(Op("sigma_x sigma_x", [i, j], float(rng.normal())))
            terms.append(Op("sigma_z sigma_z", [i, j], float(rng.normal())))
    model = Model(basis, terms)
    for algo in ("svd", "variational"):
        for cplx in (False, True):
            detail = {"probe": "Mpo.contract", "algo": algo, "nsites": n, "complex": cplx, "k": k}
            out["cases"].append(json.dumps(detail))
            try:
                mpo = Mpo(model)
                reseed_global(seed, "c13-contract-state", k, algo, cplx)
                mps = Mps.random(model, 0, 4, 1.0)
                if cplx:
                    mps = st.complexify(mps, rng)
                mps.compress_config = CompressConfig(CompressCriteria.fixed, max_bonddim=8)
                o0, s0, bd0 = st.dense(mpo), st.dense(mps), list(mpo.bond_dims)
                res = mpo.contract(mps, algo=algo)
                if np.linalg.norm(st.dense(mpo) - o0) > 1e-12 * np.linalg.norm(o0) or list(mpo.bond_dims) != bd0:
                    out["viol"].append((f"C13:contract-disturbs-operator:{algo}", f"Mpo.contract(algo={algo}) changed the operator it was called on: bond dims {bd0} -> {list(mpo.bond_dims)}, dense change {np.linalg.norm(st.dense(mpo) - o0) / np.linalg.norm(o0):.2e}", detail))
                if np.linalg.norm(st.dense(mps) - s0) > 1e-12 * np.linalg.norm(s0):
                    out["viol"].append((f"C13:contract-disturbs-state:{algo}", f"Mpo.contract(algo={algo}) changed the state handed in", detail))
                if res is mps:
                    out["viol"].append((f"C13:contract-returns-input:{algo}", "Mpo.contract returned its input", detail))
            except Exception as e:
                out["viol"].append((f"C13:contract-raises:{algo}:{type(e).__name__}", f"{type(e).__name__}: {e}", detail))
    return out


def run(ctx):
    c03.run(ctx, owned=OWNED, extra="c13")
    # tree states: the same frame comparison along TtnHeap histories (both mirrored universes)
    from . import c11
    c11.run(ctx, owned=OWNED)
    from ..common import pmap, MachineryError
    for st_, o in pmap(_contract_probe, [(ctx.seed, k) for k in range(4 if ctx.tier == "quick" else 16)]):
        if st_ != "ok":
            raise MachineryError("contract probe failed: " + o)
        for c in o["cases"]:
            ctx.case(fingerprint=c, nontrivial=True)
        for key, what, detail in o["viol"]:
            ctx.violation(key, what, detail)
    # tree time evolution: input compared before/after every TTNS.evolve call (4 schemes, real and imaginary time)
    from . import c12
    c12.run(ctx, owned="C13")
