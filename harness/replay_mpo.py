"""spec -> code replay of SymbolicMpo cases: build real Mpo objects for a TLC-emitted term table and compare.

Used by C01 (denotation, swaps), C20 (bond dimensions, recorded vertex covers) and C06 (bond charges).
"""
import itertools
import numpy as np

from . import concretize as cz

ALGOS = ["qr", "Hopcroft-Karp", "Hungarian"]
GRAPH_ALGOS = ["Hopcroft-Karp", "Hungarian"]


def relerr(got, ref):
    return float(np.linalg.norm(got - ref) / (np.linalg.norm(ref) + 1e-300)) if np.linalg.norm(ref) > 0 else float(np.linalg.norm(got))


class CoverRecorder:
    """Wrap symbolic_mpo.bipartite_vertex_cover (as imported there) and keep (graph, algo, result)."""

    def __init__(self):
        self.calls = []

    def __enter__(self):
        import renormalizer.mps.symbolic_mpo as sm
        self.sm = sm
        self.orig = sm.bipartite_vertex_cover
        rec = self

        def wrapped(*a, **k):
            res = rec.orig(*a, **k)
            try:          # the recorder never interferes; a call it cannot interpret is simply not recorded
                bigraph = a[0] if a else k["bigraph"]
                algo = k.get("algo", a[1] if len(a) > 1 else "Hopcroft-Karp")
                rec.calls.append({"graph": [[int(v) for v in adj] for adj in bigraph], "algo": algo,
                                  "u": [bool(x) for x in res[0]], "v": [bool(x) for x in res[1]]})
            except Exception:
                pass
            return res
        sm.bipartite_vertex_cover = wrapped
        return self

    def __exit__(self, *a):
        self.sm.bipartite_vertex_cover = self.orig


def export_outs(mpo, basis, alphas):
    """Mpo.symbolic_out_ops_list -> nested int lists for SymbolicMpoTrace, or None if a factor is not integral."""
    from renormalizer.model import Op
    prim = mpo.primary_ops
    nsite = len(basis)
    # per-site map (symbol, dofs) -> id
    maps = []
    for s in range(nsite):
        m = {}
        for k, ls in enumerate(alphas[s]):
            m[(ls.symbol, tuple(ls.dofs))] = k + 1
        maps.append(m)

    def sym_id(site, pidx):
        op = prim[pidx]
        if op.is_identity:
            return 0
        return maps[site][(op.symbol, tuple(op.dofs))]

    outs, qns = [], []
    for b, out_ops in enumerate(mpo.symbolic_out_ops_list):
        row, qrow = [], []
        for out_op in out_ops:
            if hasattr(out_op, "symbol"):      # fast path of a one-term operator: a bare OpTuple
                out_op = [out_op]
            lst = []
            for t in out_op:
                f = complex(t.factor)
                if abs(f.imag) > 0 or abs(f.real - round(f.real)) > 1e-12:
                    return None
                symbol = [int(x) for x in t.symbol]
                if b == 0:
                    lst.append([0, 0, int(round(f.real))])
                else:
                    lst.append([symbol[0], sym_id(b - 1, symbol[1]), int(round(f.real))])
            row.append(lst)
            q = np.asarray(out_op[0].qn).reshape(-1)
            qrow.append(int(q[0]) if q.size else 0)
        outs.append(row)
        qns.append(qrow)
    return outs, qns


def charges(alphas):
    out = []
    for a in alphas:
        row = [0]
        for ls in a:
            q = sum(np.asarray(x).reshape(-1)[0] for x in ls.qn)
            row.append(int(q))
        out.append(row)
    return out


def build_ops(terms, basis, alphas, scale, rng, qn_size):
    """terms: list of (word, int coeff) possibly with repeated words; scale: dict word -> scalar."""
    ops = []
    for w, c in terms:
        f = c * scale.get(tuple(w), 1.0)
        op, site = cz.word_to_op(w, alphas, f, rng)
        if op is None:
            op = cz.identity_op(basis, site, f, qn_size)
        ops.append(op)
    return ops


def replay_case(case, idx, seed, tier, want_trace=True, want_covers=False, families=None, do_swaps=None):
    """-> dict(viol=[(key, what, detail)], traces=[...], covers=[...], builds=int, bonds_checked=int)"""
    from renormalizer.model import Model
    from renormalizer.mps import Mpo
    from renormalizer.utils import Quantity
    res = {"viol": [], "traces": [], "covers": [], "builds": 0, "bonds_checked": 0, "swaps": 0, "nontrivial": False}
    inp = [(tuple(t["w"]), int(t["c"])) for t in case["input"]]
    N = len(inp[0][0])
    A = max(max(w) for w, _ in inp)
    distinct_words = {w for w, _ in inp}
    res["nontrivial"] = len(distinct_words) >= 2
    nfam = len(cz.FAMILIES)
    if families is None:
        families = [cz.FAMILIES[(idx + k) % nfam] for k in range(1 if tier == "quick" else 3)]
    if do_swaps is None:
        do_swaps = (tier != "quick") or (idx % 3 == 0)
    for fi, fam in enumerate(families):
        variant = (idx // nfam + fi) % 4
        basis, alphas = cz.make_family(fam, N, variant)
        qn_size = basis[0].sigmaqn.shape[1]
        rng = cz_rng(seed, idx, fam)
        chg = charges(alphas)
        tot_charge = {sum(chg[s][w[s]] for s in range(N)) for w, _ in inp}
        uniform = len(tot_charge) == 1 and qn_size == 1
        for p in (0, 1):
            if p == 0:
                scale = {}
                offset = 2.0 if idx % 3 == 1 else 0.0
            else:
                # complex factors spanning six orders of magnitude; one scale per distinct WORD so that
                # repeated words still add up / cancel as in the abstract case
                scale = {w: (10.0 ** rng.uniform(-3, 3)) * np.exp(1j * rng.uniform(0, 2 * np.pi)) for w in distinct_words}
                if idx % 2 == 0:
                    scale = {w: abs(v) * (1 if rng.random() < 0.5 else -1) for w, v in scale.items()}
                offset = 0.37 if idx % 3 == 2 else 0.0
            ref_terms = [(w, c * scale.get(w, 1.0)) for w, c in inp]
            ref = cz.dense_terms(ref_terms, basis, alphas, offset=offset)
            if np.linalg.norm(ref) < 1e-9 * max(abs(c * scale.get(w, 1.0)) for w, c in inp):
                continue   # operator cancels identically after concretisation (e.g. an offset eating the identity term)
            for algo in ALGOS:
                ops = build_ops(inp, basis, alphas, scale, rng, qn_size)
                detail = {"case": case, "idx": idx, "family": fam, "variant": variant, "pass": p, "algo": algo,
                          "offset": offset}
                try:
                    model = Model(list(basis), [])
                    if want_covers and algo in GRAPH_ALGOS:
                        with CoverRecorder() as rec:
                            mpo = Mpo(model, ops, offset=Quantity(offset), algo=algo)
                        for c in rec.calls:
                            res["covers"].append(c)
                    else:
                        mpo = Mpo(model, ops, offset=Quantity(offset), algo=algo)
                    res["builds"] += 1
                    got = mpo.todense()
                    got2 = cz.mpo_dense(mpo)
                except Exception as e:  # an accepted input must not raise
                    res["viol"].append((f"C01:build-raises:{algo}", f"Mpo(...) raised {type(e).__name__}: {e}", detail))
                    continue
                e1, e2 = relerr(got, ref), relerr(got2, ref)
                if e1 > 1e-9 or e2 > 1e-9:
                    res["viol"].append((f"C01:denotation:{algo}",
                                        f"Mpo.todense differs from the dense sum of products: rel.err todense={e1:.2e} tensors={e2:.2e}",
                                        detail))
                if algo in GRAPH_ALGOS:
                    # C20: bond dimension at every inner cut = minimum cover of the raw incidence matrix (spec-computed)
                    # with an offset the table gets an extra identity row unless the (deduplicated) terms already contain
                    # the identity word; then the spec's minimum cover is still the right prediction as long as the
                    # offset does not cancel that term exactly
                    bag_id = [t["c"] for t in case["terms"] if all(x == 0 for x in t["w"])]
                    id_coef = (bag_id[0] if bag_id else 0) * scale.get(tuple([0] * N), 1.0)
                    if offset == 0.0 or (bag_id and abs(id_coef - offset) > 1e-9 * max(1.0, abs(id_coef))):
                        bd = [int(x) for x in mpo.bond_dims]
                        exp = [1] + [int(x) for x in case["rawmin"]] + [1]
                        res["bonds_checked"] += 1
                        nl = [len({w[:cut] for w, _ in inp if any(t["w"] == list(w) for t in case["terms"])}) for cut in range(N + 1)]
                        nr = [len({w[cut:] for w, _ in inp if any(t["w"] == list(w) for t in case["terms"])}) for cut in range(N + 1)]
                        if bd != exp:
                            res["viol"].append((f"C20:bond-dims:{algo}",
                                                f"bond_dims {bd} differ from the minimum cover sizes {exp} of the term incidence matrix",
                                                detail))
                        elif any(bd[c] > min(nl[c], nr[c]) for c in range(1, N)):
                            res["viol"].append((f"C20:bond-exceeds-partial-terms:{algo}",
                                                f"bond_dims {bd} exceed the number of distinct left {nl} / right {nr} partial terms", detail))
                    if p == 0 and want_trace:
                        tr_terms = [[list(w), c] for w, c in inp] + ([[[0] * N, -int(offset)]] if offset else [])
                        ex = export_outs(mpo, basis, alphas)
                        if ex is not None:
                            uni_here = uniform and (not offset or tot_charge == {0})
                            res["traces"].append({"id": f"{idx}/{fam}/{algo}/build", "n": N, "terms": tr_terms,
                                                  "outs": ex[0], "qn": ex[1], "chg": chg, "uniform": bool(uni_here)})
                # ---- adjacent-site swaps (in place), every sequence of length <= 2
                if do_swaps and N >= 2 and p == (idx % 2):
                    seqs = [(i,) for i in range(N - 1)] + [(i, j) for i in range(N - 1) for j in range(N - 1)]
                    if tier == "quick":
                        seqs = [seqs[k] for k in range(len(seqs)) if (k + idx) % 3 == 0]
                    for seq in seqs:
                        try:
                            mpo2 = Mpo(Model(list(basis), []), build_ops(inp, basis, alphas, scale, rng, qn_size),
                                       offset=Quantity(offset), algo=algo)
                            order = list(range(N))
                            cur_basis = list(basis)
                            for step, i in enumerate(seq):
                                order[i], order[i + 1] = order[i + 1], order[i]
                                cur_basis[i], cur_basis[i + 1] = cur_basis[i + 1], cur_basis[i]
                                new_model = Model(list(cur_basis), [])
                                mpo2.try_swap_site(new_model, swap_jw=False, algo=algo)
                                res["swaps"] += 1
                                cur_alphas = [alphas[o] for o in order]
                                pterms = [(tuple(w[o] for o in order), c) for w, c in ref_terms]
                                pref = cz.dense_terms(pterms, cur_basis, cur_alphas, offset=offset)
                                e = relerr(mpo2.todense(), pref)
                                if e > 1e-9:
                                    res["viol"].append((f"C01:swap-denotation:{algo}",
                                                        f"after try_swap_site sequence {seq[:step + 1]} the operator differs from the permuted operator: rel.err {e:.2e}",
                                                        dict(detail, swaps=list(seq[:step + 1]))))
                                    break
                                if p == 0 and want_trace and algo in GRAPH_ALGOS:
                                    mpo2.primary_ops = mpo2.primary_ops  # unchanged for swap_jw=False
                                    ex = export_outs(mpo2, cur_basis, cur_alphas)
                                    if ex is not None:
                                        tr_terms = [[[w[o] for o in order], c] for w, c in inp] + ([[[0] * N, -int(offset)]] if offset else [])
                                        res["traces"].append({"id": f"{idx}/{fam}/{algo}/swap{list(seq[:step + 1])}", "n": N,
                                                              "terms": tr_terms, "outs": ex[0], "qn": ex[1],
                                                              "chg": [chg[o] for o in order], "uniform": False})
                        except Exception as e:
                            onerow = "one-row-table" if (len(case["terms"]) == 1 and (offset == 0.0 or all(x == 0 for x in case["terms"][0]["w"]))) else "general"
                            if isinstance(e, AssertionError) and "Not equal to tolerance" in str(e):
                                onerow = "consistency-check-tolerance"      # the internal debug check of swap_site, not the exchange itself
                            res["viol"].append((f"C01:swap-raises:{onerow}:{algo}",
                                                f"try_swap_site sequence {seq} raised {type(e).__name__}: {e}",
                                                dict(detail, swaps=list(seq))))
    return res


def cz_rng(seed, idx, fam):
    from .common import rng_for
    return rng_for(seed, idx, fam)


def regroup_case(idx, seed):
    """The SAME Op objects used to build operators for two models that group the same DoFs into sites differently
    (separate one-electron sites vs. one multi-electron site), in both orders: inputs must not carry state between calls."""
    from renormalizer.model import Model, Op, basis as ba
    from renormalizer.mps import Mpo
    from .common import rng_for
    rng = rng_for(seed, "regroup", idx)
    res = {"viol": [], "builds": 0}
    e = [f"e{i}" for i in range(4)]
    cr = np.array([[0., 0.], [1., 0.]])
    an = cr.T
    def model_a():
        return [ba.BasisSimpleElectron(e[0]), ba.BasisSimpleElectron(e[1]), ba.BasisSHO("v", 1.1, 3), ba.BasisSimpleElectron(e[2]), ba.BasisSimpleElectron(e[3])]
    def model_b():
        return [ba.BasisMultiElectronVac([e[0], e[1]]), ba.BasisSHO("v", 1.1, 3), ba.BasisMultiElectronVac([e[2], e[3]])]
    bm = cz._b(3)
    xv = np.sqrt(0.5 / 1.1) * (bm + bm.T)
    # random terms: hopping e_i^+ e_j (i != j), number e_i^+ e_i, optionally times x on the vibration
    pairs = [(i, j) for i in range(4) for j in range(4)]
    chosen = [pairs[k] for k in rng.choice(len(pairs), size=int(rng.integers(2, 6)), replace=False)]
    terms = []
    for (i, j) in chosen:
        f = float(rng.uniform(-1, 1))
        withx = rng.random() < 0.4
        terms.append((i, j, f, withx))
    def ops():
        out = []
        for i, j, f, withx in terms:
            o = Op(r"a^\dagger a", [e[i], e[j]], f, qn=[1, -1])
            if withx:
                o = o * Op("x", "v", 1.0, qn=0)
            out.append(o)
        return out
    def ref_a():
        dims = [2, 2, 3, 2, 2]
        pos = {0: 0, 1: 1, 2: 3, 3: 4}
        tot = np.zeros((int(np.prod(dims)),) * 2)
        for i, j, f, withx in terms:
            mats = [np.eye(d) for d in dims]
            if i == j:
                mats[pos[i]] = cr @ an
            else:
                mats[pos[i]] = cr
                mats[pos[j]] = an
            if withx:
                mats[2] = xv
            m = np.array([[1.0]])
            for x in mats:
                m = np.kron(m, x)
            tot += f * m
        return tot
    def ref_b():
        dims = [3, 3, 3]
        tot = np.zeros((27, 27))
        for i, j, f, withx in terms:
            mats = [np.eye(3) for _ in dims]
            si, sj = (0 if i < 2 else 2), (0 if j < 2 else 2)
            ki, kj = 1 + (i % 2), 1 + (j % 2)
            if si == sj:
                m_ = np.zeros((3, 3)); m_[ki, kj] = 1.0
                mats[si] = m_
            else:
                m1 = np.zeros((3, 3)); m1[ki, 0] = 1.0
                m2 = np.zeros((3, 3)); m2[0, kj] = 1.0
                mats[si] = m1
                mats[sj] = m2
            if withx:
                mats[1] = xv
            m = np.array([[1.0]])
            for x in mats:
                m = np.kron(m, x)
            tot += f * m
        return tot
    for order in ("AB", "BA"):
        for algo in ALGOS:
            o = ops()
            for which in order:
                basis = model_a() if which == "A" else model_b()
                ref = ref_a() if which == "A" else ref_b()
                try:
                    mpo = Mpo(Model(basis, []), o, algo=algo)
                    res["builds"] += 1
                    err = relerr(mpo.todense(), ref)
                except Exception as ex:
                    res["viol"].append((f"C01:regroup-raises:{algo}", f"building model {which} (order {order}) with re-used Op objects raised {type(ex).__name__}: {ex}",
                                        {"idx": idx, "terms": terms, "order": order, "which": which}))
                    break
                if err > 1e-9:
                    res["viol"].append((f"C01:regroup-denotation:{algo}",
                                        f"operator built for site grouping {which} (order {order}) from Op objects already used for the other grouping is wrong: rel.err {err:.2e}",
                                        {"idx": idx, "terms": terms, "order": order, "which": which}))
                    break
    return res
