-------------------------- MODULE SymbolicMpoTrace --------------------------
(* code -> spec: judge symbolic operators produced by the REAL construction / swap code.

   A case (JSON, written by harness/checks/c01.py) carries
     n      number of sites
     terms  the operator the MPO must denote, as a list of [word, coeff] in the CURRENT site order
            (for a swapped operator: the permuted words), integer coefficients, repetitions allowed
     outs   Mpo.symbolic_out_ops_list: for every bond 0..n a list of out operators, each a list of
            [in_idx, local symbol id, integer factor]   (symbol id 0 = identity of that site)
     chg    chg[site][sym+1]: charge of local symbol `sym` on `site`     (1-component)
     qn     qn[bond+1][j]: charge label the code attached to out operator j on `bond`
     uniform  TRUE iff all input terms carry the same total charge (only then are labels meaningful)
   TLC expands the denotation bond by bond with the same bag algebra the design spec uses
   (WordBags) and compares it with the input: exact integer arithmetic, no tolerance.          *)
EXTENDS WordBags, TLC, Json, IOUtils

Cases == JsonDeserialize(IOEnv.TRACE_FILE)

VARIABLE i
Init == i \in 1..Len(Cases)
Next == FALSE /\ UNCHANGED i

\* den of one out operator given the dens of the previous bond
OutDen(prev, outop) ==
   BSumSeq([k \in 1..Len(outop) |-> BScale(BAppend(prev[outop[k][1] + 1], outop[k][2]), outop[k][3])])
RECURSIVE DenAt(_, _)
DenAt(c, b) == IF b = 0 THEN << {<< <<>>, 1 >>} >>
               ELSE LET prev == DenAt(c, b - 1) IN
                    [j \in 1..Len(c.outs[b + 1]) |-> OutDen(prev, c.outs[b + 1][j])]

TermBag(c) == BOfList([k \in 1..Len(c.terms) |-> <<c.terms[k][1], c.terms[k][2]>>])

RECURSIVE WordCharge(_, _, _)
WordCharge(c, w, s) == IF s > Len(w) THEN 0 ELSE c.chg[s][w[s] + 1] + WordCharge(c, w, s + 1)

Denotes(c) == LET d == DenAt(c, c.n) IN Len(d) = 1 /\ d[1] = TermBag(c)
\* in-range indices: every out operator refers to an existing operator of the previous bond
WellFormed(c) == \A b \in 1..c.n : \A j \in 1..Len(c.outs[b + 1]) : \A k \in 1..Len(c.outs[b + 1][j]) :
                     c.outs[b + 1][j][k][1] + 1 \in 1..Len(c.outs[b])
\* bond charges: every word of den[b][j] carries the charge the code labelled the bond index with
LabelsOK(c) == c.uniform =>
                 \A b \in 1..c.n : LET d == DenAt(c, b) IN
                    \A j \in 1..Len(d) : \A p \in d[j] : WordCharge(c, p[1], 1) = c.qn[b + 1][j]

Verdict ==
  LET c == Cases[i]
      wf == WellFormed(c)
  IN PrintT(<<"VERDICT", ToJson([id |-> c.id, wellformed |-> wf,
                                  denotes |-> IF wf THEN Denotes(c) ELSE FALSE,
                                  labels |-> IF wf THEN LabelsOK(c) ELSE FALSE])>>)
=============================================================================
