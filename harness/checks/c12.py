"""C12 — tree tensor network time evolution matches the exact propagator.

TreeSweep.tla models the explicit-stack DFS of the one-site projector splitting on trees (_tdvp_ps_forward / _tdvp_ps_backward)
for EVERY increasing tree with K nodes, with version-stamped environments: TLC checks EnvFresh (no stale environment is
ever consumed), HalfSweep / FullSweep (every node evolved once forward per half sweep, every edge once backward, centre
back at the root) and emits the local-evolution schedule of each tree.  The real sweep is recorded (which node / which bond
is evolved with which sign of the time step) and must equal the emitted schedule.  All four schemes are run on every tree
(with multi-set and dummy nodes) in real and imaginary time, one and two calls, against the dense propagator; sector, bond
limit, one-site PS norm / energy conservation at insufficient bond, input untouched; a linear tree is compared with the
chain implementation.
"""
import json

import numpy as np
from scipy.linalg import expm

from .. import tlc
from ..common import pmap, MachineryError, bootstrap, rng_for, reseed_global

LEVEL = "model_checking"
SCHEMES = ["tdvp_vmf", "prop_and_compress_tdrk4", "tdvp_ps", "tdvp_ps2"]


class SweepRecorder:
    def __init__(self, ttns, nodes_index):
        self.events = []
        self.idx = nodes_index     # tensor node -> construction index resolved lazily through tn2bn

    def __enter__(self):
        import renormalizer.tn.time_evolution as te
        self.te = te
        self.o1, self.o0 = te.evolve_1site, te.evolve_0site
        rec = self

        # recorders never interfere: arguments pass through untouched; what cannot be interpreted is "unobserved" (=> SPEC-DRIFT at most)
        def e1(*a, **k):
            try:
                rec.events.append(["1site", rec.idx(a[1], a[0]), float(np.sign(np.real(k["tau"] if "tau" in k else a[-1])))])
            except Exception:
                rec.events.append(["unobserved", -1, 0.0])
            return rec.o1(*a, **k)

        def e0(*a, **k):
            try:
                rec.events.append(["0site", rec.idx(a[2], a[1]), float(np.sign(np.real(k["tau"] if "tau" in k else a[-1])))])
            except Exception:
                rec.events.append(["unobserved", -1, 0.0])
            return rec.o0(*a, **k)
        from renormalizer.tn.tree import TTNS
        self.TTNS, self.o2, self.ou = TTNS, te.evolve_2site, TTNS.update_2site
        rec.ps2 = []

        def e2(*a, **k):
            try:
                rec.ps2.append(["ev2", rec.idx(a[1], a[0]), 0])
            except Exception:
                rec.ps2.append(["unobserved", -1, 0])
            return rec.o2(*a, **k)

        def upd(self_, *a, **k):
            try:
                cp = k.get("cano_parent", a[4] if len(a) > 4 else True)
                rec.ps2.append(["upd2", rec.idx(self_, a[0] if a else k["node"]), 1 if cp else 0])
            except Exception:
                rec.ps2.append(["unobserved", -1, 0])
            return rec.ou(self_, *a, **k)

        def e1b(*a, **k):
            try:
                rec.ps2.append(["ev1", rec.idx(a[1], a[0]), 0])
            except Exception:
                rec.ps2.append(["unobserved", -1, 0])
            return e1(*a, **k)
        te.evolve_1site, te.evolve_0site, te.evolve_2site, TTNS.update_2site = e1b, e0, e2, upd
        return self

    def __exit__(self, *a):
        self.te.evolve_1site, self.te.evolve_0site, self.te.evolve_2site, self.TTNS.update_2site = self.o1, self.o0, self.o2, self.ou


def _is_full(t, u, mask, keys):
    """None: some edge carries less than the largest rank a vector of the sector can have across it (no accuracy claim for
    fixed-rank schemes).  "exact": every bond equals the full dimension of one of its two sides, so the one-site splitting
    is exact (the backward bond step cancels one of the forward steps).  "sector-full": the manifold is the whole sector but,
    block by block, different sides are full; P1 - P2 + P3 is then a genuine Strang splitting of the identity with local
    error O(tau^3) (derivation in DESIGN.md, C12)."""
    from .. import trees
    rng = rng_for(*keys)
    v = rng.standard_normal(mask.shape[0]) * mask
    v = v.reshape([b.nbas for b in u.basis])
    order = list(u.basis)
    bd = trees.bond_dims(t)
    one_sided = True
    for n in t.node_list:
        if n.parent is None:
            continue
        sub = trees.subtree_sets(t, n)
        ia = [order.index(b) for b in sub]
        ib = [i for i in range(len(order)) if i not in ia]
        m = v.transpose(ia + ib).reshape(int(np.prod([v.shape[i] for i in ia], dtype=int)), -1)
        if bd[t.node_idx[n]] < np.linalg.matrix_rank(m):
            return None
        if bd[t.node_idx[n]] < min(m.shape):
            one_sided = False
    return "exact" if one_sided else "sector-full"


def _tree_cases(args):
    bootstrap()
    from renormalizer.utils import EvolveConfig, EvolveMethod, CompressConfig, CompressCriteria
    from .. import trees, states as st, concretize as cz
    from ..replay_tree import TreeUniverse
    jobs, seed, schedules, tier = args
    out = {"cases": [], "viol": [], "meas": [], "traces": 0}
    for (ji, par, sets, fam) in jobs:
        tcase = trees.make_case(par, sets, fam, variant=ji % 3)
        try:
            u = TreeUniverse(tcase, seed)
        except Exception as e:
            out["viol"].append(("C12:setup-raises", f"{type(e).__name__}: {e}", {"tree": tcase["desc"]}))
            continue
        H = np.asarray(u.dense_op["H"], dtype=float)
        nrm = np.linalg.norm(H, 2) or 1.0
        from renormalizer.tn import TTNO
        from ..replay_mpo import build_ops
        terms = [(w, c / nrm) for w, c in u.terms["H"]]
        ttno = TTNO(u.tree, build_ops(terms, u.basis, u.alphas, {}, None, u.qn_size))
        H = H / nrm
        q = trees.sector(tcase, u.basis)
        mask = st.sector_projector(u.basis, q)
        nodes = u.nodes

        def node_index(ttns, snode):
            return nodes.index(ttns.tn2bn[snode])
        for scheme in SCHEMES:
            for imag in (False, True):
                for ncall in (1, 2):
                    if tier == "frame" and not (ncall == 1 and (ji + SCHEMES.index(scheme)) % 2 == 0):
                        continue
                    detail = {"tree": tcase["desc"], "scheme": scheme, "imag": imag, "ncall": ncall}
                    out["cases"].append(json.dumps(detail))
                    try:
                        # a generic state of the sector; bonds are reduced to the exact ranks after every sum so that nodes with many
                        # children never hold the product of the summands' bond dimensions (46 GB on a 5-node star otherwise)
                        t = trees.random_ttns(tcase, 8, (seed, "c12", ji), qntot=q)
                        for j in range(3):
                            t = t.add(trees.random_ttns(tcase, 8, (seed, "c12b", ji, j), qntot=q).scale(0.7 - 0.2 * j))
                            t.canonicalise()
                            t.compress(temp_m_trunc=10 ** 6)
                        for j in range(2):
                            t = t.add(ttno.apply(t).scale(0.6 - 0.2 * j))
                            t.canonicalise()
                            t.compress(temp_m_trunc=10 ** 6)
                        t = t.scale(1.0 / t.ttns_norm)
                        full = _is_full(t, u, mask, (seed, "full", ji))
                        if (ji + imag) % 2 and not imag:
                            t = t.to_complex().scale(np.exp(0.4j))
                        ref = trees.dense(t, order=list(u.basis)).reshape(-1)
                        cur = t
                        tau = (0.5, 0.15, 0.05)[(ji + SCHEMES.index(scheme) + ncall) % 3]
                        ok = True
                        history = [(cur, trees.dense(cur, order=list(u.basis)).reshape(-1))]
                        percap = full is not None and scheme in ("tdvp_ps2", "prop_and_compress_tdrk4") and (ji + ncall + imag) % 2 == 0
                        detail["per_bond_caps"] = percap
                        for ci in range(ncall):
                            cur.evolve_config = EvolveConfig(getattr(EvolveMethod, scheme), ivp_rtol=1e-9, ivp_atol=1e-11)
                            cur.compress_config = CompressConfig(CompressCriteria.fixed, max_bonddim=256)
                            if percap:
                                # the user caps every bond at the largest rank the sector allows (entry i = bond node i -> parent)
                                cur.compress_config.set_bonddim(len(cur.node_list) + 1)
                                cur.compress_config.max_dims[:len(cur.node_list)] = np.array(t.bond_dims, dtype=int)
                            before = trees.dense(cur, order=list(u.basis))
                            dt = -1j * tau if imag else tau
                            if not imag and scheme != "tdvp_vmf" and (ji + ncall + ci) % 3 == 0:
                                # a real step stored in a complex-typed number (an element of a complex array of steps): still real time
                                dt = complex(tau, 0.0)
                                detail["complex_typed_real_step"] = True
                            if scheme == "tdvp_ps":
                                with SweepRecorder(cur, node_index) as rec:
                                    new = cur.evolve(ttno, dt)
                                # ---- code -> spec: the recorded local evolutions are the schedule TLC emitted for this tree
                                exp_ev = schedules.get(json.dumps(par))
                                if exp_ev is not None:
                                    out["traces"] += 1
                                    got_ev = [[e[0], e[1]] for e in rec.events]
                                    if got_ev != [list(e) for e in exp_ev]:
                                        out["viol"].append(("DRIFT:C12:schedule:tdvp_ps", f"the recorded sweep {got_ev} differs from the specified DFS schedule {exp_ev}", detail))
                                    signs_ok = all((e[2] > 0) == (e[0] == "1site") for e in rec.events) if not imag else True
                                    if not signs_ok:
                                        out["viol"].append(("DRIFT:C12:schedule-signs:tdvp_ps", "site tensors must be evolved forward (+tau/2) and bond tensors backward (-tau/2)", detail))
                            elif scheme == "tdvp_ps2" and "ps2:" + json.dumps(par) in schedules:
                                with SweepRecorder(cur, node_index) as rec:
                                    new = cur.evolve(ttno, dt)
                                out["traces"] += 1
                                exp_ev = [list(e) for e in schedules["ps2:" + json.dumps(par)] if e[0] != "half"]
                                if rec.ps2 != exp_ev:
                                    first = next((i for i, (a, b) in enumerate(zip(rec.ps2, exp_ev)) if a != b), min(len(rec.ps2), len(exp_ev)))
                                    out["viol"].append(("DRIFT:C12:schedule:tdvp_ps2", f"the recorded two-site sweep differs from the specified schedule at event {first}: got {rec.ps2[first:first + 3]}, expected {exp_ev[first:first + 3]}", detail))
                            else:
                                new = cur.evolve(ttno, dt)
                            after = trees.dense(cur, order=list(u.basis))
                            if np.linalg.norm(after - before) > 1e-10 * (np.linalg.norm(before) + 1):
                                out["viol"].append((f"C13:tree-evolve-disturbs-input:{scheme}:{'imag' if imag else 'real'}", f"TTNS.evolve changed its input by {np.linalg.norm(after - before):.2e}", detail))
                            if new is cur:
                                out["viol"].append((f"C13:tree-evolve-returns-input:{scheme}:{'imag' if imag else 'real'}", "TTNS.evolve returned its input object", detail))
                            ref = (expm(-tau * H) if imag else expm(-1j * tau * H)) @ ref
                            g = trees.dense(new, order=list(u.basis)).reshape(-1)
                            err = float(np.linalg.norm(g / np.linalg.norm(g) - ref / np.linalg.norm(ref)))
                            out["meas"].append({"scheme": scheme, "imag": imag, "err": err, "call": ci, "nodes": len(nodes)})
                            bound = {"tdvp_vmf": 2e-8, "prop_and_compress_tdrk4": max(0.1 * tau ** 5, 1e-8), "tdvp_ps": 1e-8, "tdvp_ps2": 1e-8}[scheme] * (ci + 1)
                            if scheme in ("tdvp_ps", "tdvp_vmf") and full is None:
                                bound = None      # the fixed-rank manifold does not contain the whole sector: no accuracy claim
                            elif scheme == "tdvp_ps" and full == "sector-full":
                                bound = max(0.01 * tau ** 3, 1e-8) * (ci + 1)
                            out["meas"][-1]["full"] = full
                            if bound is not None and err > bound:
                                out["viol"].append((f"C12:accuracy:{scheme}:{'imag' if imag else 'real'}", f"after call {ci} the tree state differs from the dense propagator by {err:.2e} (allowed {bound:.1e})", detail))
                                ok = False
                                break
                            leak = np.linalg.norm(g[~mask]) / (np.linalg.norm(g) + 1e-300)
                            if leak > 1e-8:
                                out["viol"].append((f"C06:tree-evolve-sector-leak:{scheme}", f"{leak:.2e} of the evolved tree state lies outside the sector", detail))
                            if imag and abs(np.linalg.norm(g) - 1) > 1e-7:
                                out["viol"].append((f"C12:norm-after-imag:{scheme}", f"norm {np.linalg.norm(g)} after imaginary-time evolve", detail))
                            cur = new
                            history.append((cur, g.copy()))
                        # ---- multi-step history: every stored state is still the propagated state of its own time
                        for k, (obj, r_) in enumerate(history[:-1] if ok else []):
                            g = trees.dense(obj, order=list(u.basis)).reshape(-1)
                            d_ = float(np.linalg.norm(g - r_))
                            if d_ > 1e-10 * (1 + np.linalg.norm(r_)):
                                out["viol"].append((f"C12:history-state-overwritten:{scheme}:{'imag' if imag else 'real'}", f"the stored state of step {k} of a {ncall}-call history moved by {d_:.2e} after later calls", detail))
                                break
                    except Exception as e:
                        import traceback
                        tb = traceback.format_exc(limit=3).splitlines()
                        out["viol"].append((f"C12:raises:{scheme}:{'imag' if imag else 'real'}:{type(e).__name__}", f"{type(e).__name__}: {e} | {tb[-3].strip() if len(tb) > 3 else ''}", detail))
        # ---- one-site PS at insufficient bond: norm and energy
        if len(nodes) >= 3:
            detail = {"tree": tcase["desc"], "probe": "ps1-conservation"}
            out["cases"].append(json.dumps(detail))
            try:
                t = trees.random_ttns(tcase, 2, (seed, "c12c", ji), qntot=q)
                t = t.scale(1.0 / t.ttns_norm)
                t.evolve_config = EvolveConfig(EvolveMethod.tdvp_ps)
                e0 = t.expectation(ttno)
                bd = trees.bond_dims(t)
                cur = t
                for step in range(4):
                    cur = cur.evolve(ttno, 0.4)
                    n_, e_ = cur.ttns_norm * abs(cur.coeff), cur.expectation(ttno)
                    if abs(n_ - 1) > 1e-7 or abs(e_ - e0) > 1e-7:
                        out["viol"].append(("C12:ps1-conservation", f"tree one-site PS at bonds {bd}: after {step + 1} steps norm {n_}, energy {e0} -> {e_}", detail))
                        break
            except Exception as e:
                out["viol"].append((f"C12:ps1-conservation-raises:{type(e).__name__}", f"{type(e).__name__}: {e}", detail))
    return out


def _chain_vs_tree(args):
    bootstrap()
    from renormalizer.tn.tree import from_mps
    from renormalizer.utils import EvolveConfig, EvolveMethod, CompressConfig, CompressCriteria
    from .. import evolve, states as st, trees
    seed, k = args
    out = {"cases": [], "viol": []}
    fam, N = [("eph", 4), ("spin", 4), ("elec", 4)][k % 3]
    sys_ = evolve.System(fam, N, seed, k % 2)
    for meth in (EvolveMethod.tdvp_ps, EvolveMethod.tdvp_ps2, EvolveMethod.tdvp_vmf):
        detail = {"system": [fam, N], "method": meth.name, "k": k}
        out["cases"].append(json.dumps(detail))
        try:
            m = evolve.generic_state(sys_, (seed, "cvt", k), "mps", "fresh", False)
            bt, t, ttno = from_mps(m)
            cfg = dict(ivp_rtol=1e-9, ivp_atol=1e-11)
            m.evolve_config = EvolveConfig(meth, **cfg)
            m.compress_config = CompressConfig(CompressCriteria.fixed, max_bonddim=64)
            t.evolve_config = EvolveConfig(meth, **cfg)
            t.compress_config = CompressConfig(CompressCriteria.fixed, max_bonddim=64)
            a = st.dense(m.evolve(sys_.mpo, 0.4)).reshape(-1)
            b = trees.dense(t.evolve(ttno, 0.4), order=list(sys_.basis)).reshape(-1)
            d = np.linalg.norm(a / np.linalg.norm(a) - b / np.linalg.norm(b))
            if d > 1e-6:
                out["viol"].append((f"C12:linear-tree-vs-chain:{meth.name}", f"linear tree and chain implementation differ by {d:.2e} at sufficient bond", detail))
        except Exception as e:
            out["viol"].append((f"C12:linear-tree-vs-chain-raises:{meth.name}", f"{type(e).__name__}: {e}", detail))
    return out


def run(ctx, owned="C12"):
    tier = ctx.tier
    schedules = {}
    for K in ((2, 3, 4) if tier == "quick" else (2, 3, 4, 5)):
        cfg = tlc.make_cfg(constants=dict(K=K), spec="Spec", invariants=["EnvFresh", "HalfSweep", "FullSweep", "EmitSchedule"])
        r = tlc.run("TreeSweep", cfg, mode="emit", vacuity=True, timeout=3000)
        ctx.add_tlc(r, f"TreeSweep K={K}: every increasing tree, forward + backward half sweep")
        if r["violated"]:
            ctx.violation(f"C12:spec:{r['violated']}", "TreeSweep violates " + r["violated"], {"tlc": r.get("error_text", "")[:2000]})
        for e in r["emitted"]:
            schedules[json.dumps(e["par"])] = e["events"]
    trees_ = list(schedules)
    for K in ((2, 3, 4) if tier == "quick" else (2, 3, 4, 5)):
        cfg = tlc.make_cfg(constants=dict(K=K, Mode='"ps2"', Bug='"none"'), spec="Spec", invariants=["EnvFresh", "CentreHome", "NetTime", "EmitSchedule"])
        r = tlc.run("TreeOpt", cfg, mode="emit", vacuity=True, timeout=3000)
        ctx.add_tlc(r, f"TreeOpt ps2 K={K}: every increasing tree, two-site forward + backward recursion")
        if r["violated"]:
            ctx.violation(f"C12:spec:TreeOpt:{r['violated']}", "TreeOpt violates " + r["violated"], {"tlc": (r.get("error_text") or "")[:2000]})
        for e in r["emitted"]:
            schedules["ps2:" + json.dumps(e["par"])] = e["events"]
    for bug in ("env1b-child-only", "env2-skips-node"):
        cfg = tlc.make_cfg(constants=dict(K=4, Mode='"ps2"', Bug=f'"{bug}"'), spec="Spec", invariants=["EnvFresh"])
        r = tlc.run("TreeOpt", cfg, mode="check", timeout=600, expect_violation=True)
        ctx.add_tlc(r, f"regression (must fail): TreeOpt ps2 {bug}")
        if r["violated"] != "EnvFresh":
            raise MachineryError(f"TreeOpt regression {bug} did not violate EnvFresh")
    jobs = []
    fams = ["spin", "elec", "eph"]
    ji = 0
    for key in trees_:
        par = json.loads(key)
        K = len(par)
        variants = [[1] * K]
        if K >= 2:
            v = [1] * K
            v[K - 1] = 2
            variants.append(v)
        if K >= 3:
            v = [1] * K
            v[1] = 0
            variants.append(v)
            v = [1] * K
            v[0] = 0
            variants.append(v)
        for sets in variants:
            if sum(sets) < 2 or sum(sets) > 5:
                continue
            jobs.append((ji, par, sets, fams[ji % 3]))
            ji += 1
    if owned != "C12":
        import random
        jobs = random.Random(ctx.seed).sample(jobs, min(len(jobs), 16))
    n = 32
    res = pmap(_tree_cases, [(jobs[i::n], ctx.seed, schedules, tier if owned == "C12" else "frame") for i in range(n) if jobs[i::n]], chunksize=1)
    if owned == "C12":
        res += pmap(_chain_vs_tree, [(ctx.seed, k) for k in range(3 if tier == "quick" else 9)], chunksize=1)
    stats, other = {}, {}
    for st_, o in res:
        if st_ != "ok":
            raise MachineryError("C12 worker failed: " + o)
        for c in o["cases"]:
            ctx.case(fingerprint=c, nontrivial=True)
        for key, what, detail in o["viol"]:
            if key.startswith(owned) or (owned == "C12" and key.startswith("DRIFT:C12")):
                ctx.violation(key, what, detail)
            else:
                other[key] = other.get(key, 0) + 1
        ctx.traces(o.get("traces", 0))
        for m in o.get("meas", []):
            s = stats.setdefault(f"{m['scheme']}/imag={m['imag']}/{m.get('full')}", {"n": 0, "max_err": 0.0})
            s["n"] += 1
            s["max_err"] = max(s["max_err"], m["err"])
    if owned != "C12":
        return
    ctx.notes["measured"] = stats
    ctx.notes["observed_for_other_properties"] = other
    ctx.sample({"tree_schedule_from_TLC": {"par": json.loads(trees_[-1]), "events": schedules[trees_[-1]]}})
    ctx.cov["rule"] = ("(tree, scheme, real/imaginary, number of calls): every increasing tree with 2..4 (thorough 5) nodes from TLC in up to 4 groupings (single sets, a two-set node, "
                       "a dummy internal node, a dummy root) 4 schemes, 3 model families, generic full-bond states; distinct = distinct tuple")
    ctx.assumptions += ["thresholds: VMF 2e-8, Taylor-4 P&C max(0.1 tau^5, 1e-8), PS/PS2 1e-8 (PS-1 at sector-full but not one-sided-full bonds: 0.01 tau^3) per call with ||H|| = 1, tau in {0.5, 0.15, 0.05} (floating-point claims, dense oracle)"]
