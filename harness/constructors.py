"""Constructor-reachable initial objects of MpHeap: the public constructors and expanders produce the vector / operator
their documentation says (dense comparison with Kronecker products assembled here), in a gauge of MpHeap's initial set
(centre + direction flags consistent with the tensors, labels valid for the stored centre), and behave under later
arithmetic (add, canonicalise, lossless compress) like any other heap object."""
import json

import numpy as np

from . import states as st
from .common import rng_for, reseed_global, bootstrap


def _kron(vs):
    out = np.ones(1)
    for v in vs:
        out = np.kron(out, v)
    return out


def _kron_m(ms):
    out = np.eye(1)
    for m in ms:
        out = np.kron(out, m)
    return out


def _survive(obj, ref, V, name, detail, tol=1e-10):
    """later gauge operations must keep the value."""
    try:
        c = obj.copy()
        c.ensure_left_canonical()          # canonicalise() itself asserts that the centre sits at the start of its sweep
        c.canonicalise()
        c.compress(temp_m_trunc=10 ** 6)
        d = np.linalg.norm(st.dense(c).reshape(-1) - ref.reshape(-1))
        if d > tol * (1 + np.linalg.norm(ref)):
            V(f"C03:constructor:{name}:survive", f"value changed by {d:.2e} under canonicalise + lossless compress", detail)
    except Exception as e:
        import traceback
        tb = traceback.format_exc(limit=6).splitlines()
        V(f"C03:constructor:{name}:survive-raises:{type(e).__name__}", f"{type(e).__name__}: {e} | {' | '.join(x.strip() for x in tb[-5:-1])}", detail)


def cases(args):
    bootstrap()
    from renormalizer.model import Model, Op
    from renormalizer.mps import Mps, Mpo, MpDm
    from renormalizer.utils import CompressConfig, CompressCriteria
    seed, k = args
    out = {"cases": [], "viol": []}

    def V(key, what, detail):
        out["viol"].append((key, what, detail))
    fam = ["elec", "eph", "spin"][k % 3]
    N = 3 + (k // 3) % 2
    model, basis, alphas = st.chain_model(fam, N, variant=k % 2)
    rng = rng_for(seed, "constructors", k)
    dims = [b.nbas for b in basis]
    qn_size = model.qn_size
    # ------------------------------------------------------------ hartree_product_state
    for rep in range(3):
        cond, vecs, qsum = {}, [], np.zeros(qn_size, dtype=int)
        for b in basis:
            sig = np.asarray(b.sigmaqn)
            mode = int(rng.integers(3))
            if mode == 0:
                s = 0
                v = np.eye(b.nbas)[0]
                if rng.random() < 0.5:
                    cond[b.dof] = 0
            elif mode == 1:
                s = int(rng.integers(b.nbas))
                v = np.eye(b.nbas)[s]
                cond[b.dof] = s
            else:
                s = int(rng.integers(b.nbas))
                same = [j for j in range(b.nbas) if np.all(sig[j] == sig[s])]
                v = np.zeros(b.nbas)
                v[same] = rng.normal(size=len(same))
                v[s] += 1.5
                cond[b.dof] = list(v)
            vecs.append(v)
            qsum = qsum + sig[s]
        ref = _kron(vecs)
        for qn_idx in [None] + list(range(N)):
            detail = {"constructor": "hartree_product_state", "family": fam, "N": N, "qn_idx": qn_idx, "rep": rep, "k": k}
            out["cases"].append(json.dumps(detail))
            try:
                m = Mps.hartree_product_state(model, dict(cond), qn_idx)
                got = st.dense(m).reshape(-1)
                if np.linalg.norm(got - ref) > 1e-12 * (1 + np.linalg.norm(ref)):
                    V("C03:constructor:hartree:value", f"differs from the Kronecker product by {np.linalg.norm(got - ref):.2e}", detail)
                if not np.array_equal(np.asarray(m.qntot).reshape(-1), qsum):
                    V("C06:constructor:hartree:qntot", f"qntot {m.qntot}, occupied charges sum to {qsum}", detail)
                ok, worst, site = st.labels_valid(m)
                if not ok:
                    V("C06:constructor:hartree:labels", f"stored labels invalid for centre {m.qnidx} at site {site} ({worst:.1e})", detail)
                if m.qnidx != (N - 1 if qn_idx is None else qn_idx):
                    V("C03:constructor:hartree:centre", f"centre {m.qnidx} for qn_idx={qn_idx}", detail)
                _survive(m, ref, V, "hartree", detail)
                # arithmetic with another product state of the same sector
                m2 = Mps.hartree_product_state(model, dict(cond), (qn_idx or 0))
                s = m.add(m2.scale(-0.5))
                if np.linalg.norm(st.dense(s).reshape(-1) - 0.5 * ref) > 1e-12 * (1 + np.linalg.norm(ref)):
                    V("C03:constructor:hartree:add", "a + (-0.5) a differs from 0.5 a", detail)
                _survive(s, 0.5 * ref, V, "hartree-sum", detail)
            except Exception as e:
                V(f"C03:constructor:hartree:raises:{type(e).__name__}", f"{type(e).__name__}: {e}", detail)
    # ------------------------------------------------------------ ground_state
    for me in (False, True):
        for norm in (True, False):
            detail = {"constructor": "ground_state", "family": fam, "N": N, "max_entangled": me, "normalize": norm, "k": k}
            out["cases"].append(json.dumps(detail))
            try:
                m = Mps.ground_state(model, me, normalize=norm)
                vecs = []
                for b in basis:
                    if (b.is_phonon or b.is_spin) and me:
                        vecs.append(np.ones(b.nbas) / (np.sqrt(b.nbas) if norm else 1.0))
                    else:
                        vecs.append(np.eye(b.nbas)[0])
                ref = _kron(vecs)
                got = st.dense(m).reshape(-1)
                if np.linalg.norm(got - ref) > 1e-12 * (1 + np.linalg.norm(ref)):
                    V("C03:constructor:ground_state:value", f"differs from the documented product state by {np.linalg.norm(got - ref):.2e}", detail)
            except Exception as e:
                V(f"C03:constructor:ground_state:raises:{type(e).__name__}", f"{type(e).__name__}: {e}", detail)
    # ------------------------------------------------------------ from_dense
    for cplx in (False, True):
        detail = {"constructor": "from_dense", "family": fam, "N": N, "complex": cplx, "k": k}
        out["cases"].append(json.dumps(detail))
        try:
            w = rng.normal(size=dims) + (1j * rng.normal(size=dims) if cplx else 0)
            m = Mps.from_dense(model, w)
            if np.linalg.norm(st.dense(m).reshape(-1) - w.reshape(-1)) > 1e-12 * np.linalg.norm(w):
                V("C03:constructor:from_dense:value", "from_dense(w) does not represent w", detail)
        except Exception as e:
            V(f"C03:constructor:from_dense:raises:{type(e).__name__}", f"{type(e).__name__}: {e}", detail)
    # ------------------------------------------------------------ operators: identity / onsite
    try:
        detail = {"constructor": "Mpo.identity", "family": fam, "N": N, "k": k}
        out["cases"].append(json.dumps(detail))
        got = st.dense(Mpo.identity(model))
        if np.linalg.norm(got - np.eye(got.shape[0])) > 1e-12:
            V("C03:constructor:identity:value", "Mpo.identity is not the identity", detail)
    except Exception as e:
        V(f"C03:constructor:identity:raises:{type(e).__name__}", f"{type(e).__name__}: {e}", detail)
    esites = [i for i, b in enumerate(basis) if b.is_electron]
    if esites:
        for opera, mat in ((r"a^\dagger", np.array([[0.0, 0.0], [1.0, 0.0]])), ("a", np.array([[0.0, 1.0], [0.0, 0.0]])), (r"a^\dagger a", np.diag([0.0, 1.0]))):
            detail = {"constructor": "Mpo.onsite", "operator": opera, "family": fam, "N": N, "k": k}
            out["cases"].append(json.dumps(detail))
            try:
                dip = {basis[i].dof: float(rng.uniform(0.5, 1.5)) for i in esites}
                mdl = Model(list(basis), [], dipole=dip)
                for use_dip in (False, True):
                    o = Mpo.onsite(mdl, opera, dipole=use_dip)
                    ref = sum((dip[basis[i].dof] if use_dip else 1.0) * _kron_m([mat if j == i else np.eye(d) for j, d in enumerate(dims)]) for i in esites)
                    if np.linalg.norm(st.dense(o) - ref) > 1e-12 * (1 + np.linalg.norm(ref)):
                        V("C03:constructor:onsite:value", f"Mpo.onsite({opera}, dipole={use_dip}) differs from the sum of local operators", detail)
                    herm = bool(np.allclose(ref, ref.T))
                    if bool(o.is_hermitian()) != herm:
                        V("C03:constructor:onsite:is_hermitian", f"is_hermitian() = {o.is_hermitian()} for a {'Hermitian' if herm else 'non-Hermitian'} operator", detail)
            except Exception as e:
                V(f"C03:constructor:onsite:raises:{type(e).__name__}", f"{type(e).__name__}: {e}", detail)
    # ------------------------------------------------------------ expand_bond_dimension
    if qn_size == 1:
        for rep in range(2):
            detail = {"constructor": "expand_bond_dimension", "family": fam, "N": N, "rep": rep, "k": k}
            out["cases"].append(json.dumps(detail))
            try:
                from .replay_heap import Universe
                u = Universe(fam, N, "mps", 1, seed, k % 2)
                q = 1 if u.esites else 0
                m = st.random_mps(u.model, q, 2, (seed, "expand", k, rep))
                m = m.scale(1.0 / m.mp_norm)
                m.compress_config = CompressConfig(CompressCriteria.fixed, max_bonddim=6)
                ref = st.dense(m).reshape(-1)
                bd = list(m.bond_dims)
                e = m.expand_bond_dimension(u.mpo["H"]["fresh"], coef=1e-8)
                got = st.dense(e).reshape(-1)
                if np.linalg.norm(got - ref) > 1e-6:
                    V("C03:constructor:expand:value", f"expand_bond_dimension(coef=1e-8) moved the state by {np.linalg.norm(got - ref):.2e}", detail)
                if any(a < b for a, b in zip(e.bond_dims, bd)):
                    V("C03:constructor:expand:bonds-shrank", f"bond dims {bd} -> {list(e.bond_dims)}", detail)
                if np.linalg.norm(st.dense(m).reshape(-1) - ref) > 1e-14:
                    V("C13:constructor:expand:input-changed", "expand_bond_dimension changed its input", detail)
                leak = np.linalg.norm(got[~u.sector_mask(q)])
                if leak > 1e-12:
                    V("C06:constructor:expand:sector", f"{leak:.1e} of the expanded state outside the sector", detail)
                ok, worst, site = st.labels_valid(e)
                if not ok:
                    V("C06:constructor:expand:labels", f"labels invalid at site {site} ({worst:.1e})", detail)
                _survive(e, got, V, "expand", detail, tol=1e-9)
            except Exception as ex:
                V(f"C03:constructor:expand:raises:{type(ex).__name__}", f"{type(ex).__name__}: {ex}", detail)
    # ------------------------------------------------------------ MpDm.from_mps: the diagonal embedding sum_n psi(n) |n><n|
    for cplx in (False, True):
        detail = {"constructor": "MpDm.from_mps", "family": fam, "N": N, "complex": cplx, "k": k}
        out["cases"].append(json.dumps(detail))
        try:
            q = st.best_sector(basis)
            m = st.random_mps(model, q, 3, (seed, "from_mps", k, cplx), cplx=cplx, coeff=(0.7 - 0.2j) if cplx else -1.3)
            ref = np.diag(st.dense(m).reshape(-1))
            d = MpDm.from_mps(m)
            got = st.dense(d)
            if np.linalg.norm(got - ref) > 1e-12 * (1 + np.linalg.norm(ref)):
                V(f"C03:constructor:MpDm.from_mps:value:{'complex' if cplx else 'real'}", f"MpDm.from_mps(psi) differs from diag(psi) by {np.linalg.norm(got - ref) / np.linalg.norm(ref):.2e} (relative)", detail)
            ok, worst, site = st.labels_valid(d)
            if not ok:
                V("C06:constructor:MpDm.from_mps:labels", f"labels invalid at site {site} ({worst:.1e})", detail)
        except Exception as ex:
            V(f"C03:constructor:MpDm.from_mps:raises:{type(ex).__name__}", f"{type(ex).__name__}: {ex}", detail)
    # ------------------------------------------------------------ density operators
    if esites and qn_size == 1:
        for which in ("ex", "gs"):
            detail = {"constructor": f"MpDm.max_entangled_{which}", "family": fam, "N": N, "k": k}
            out["cases"].append(json.dumps(detail))
            try:
                d = getattr(MpDm, f"max_entangled_{which}")(model)
                got = st.dense(d)
                q = 1 if which == "ex" else 0
                mask = st.sector_projector(basis, q)
                ref = np.diag(mask.astype(float))
                # documented as the (unnormalised or normalised) identity on the sector: compare directions
                g, r = got / (np.linalg.norm(got) + 1e-300), ref / np.linalg.norm(ref)
                if np.linalg.norm(g - r) > 1e-10:
                    V(f"C03:constructor:max_entangled_{which}:value", f"not proportional to the identity on the {q}-excitation sector ({np.linalg.norm(g - r):.2e})", detail)
            except Exception as ex:
                V(f"C03:constructor:max_entangled_{which}:raises:{type(ex).__name__}", f"{type(ex).__name__}: {ex}", detail)
    return out
