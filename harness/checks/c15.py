"""C15 — symbolic operator algebra is a faithful homomorphism (OpAlgebra register machine)."""
import json

from .. import tlc
from ..common import pmap, MachineryError
from . import heap_common as hc

LEVEL = "model_checking"


def run(ctx):
    from .. import replay_ops
    deep = 2
    cfg = tlc.make_cfg(constants=dict(Depth=deep), spec="Spec", properties=["Hom", "SimplifiedNF", "Frame"])
    r = tlc.run("OpAlgebra", cfg, vacuity=True, timeout=3000)
    ctx.add_tlc(r, f"OpAlgebra all programs of <= {deep} operations over 4 registers, 2 atom sets")
    if r["violated"]:
        ctx.violation(f"C15:spec:{r['violated']}", "OpAlgebra violates " + r["violated"], {"tlc": r.get("error_text", "")[:3000]})
    cases = []
    for d in (1, 2):
        cfg = tlc.make_cfg(constants=dict(Depth=d), spec="Spec", invariants=["EmitLeaf"])
        e = tlc.run("OpAlgebra", cfg, mode="emit", timeout=3000)
        ctx.add_tlc(e, f"emit programs of depth {d}")
        cases.append(e["emitted"])
    cfg = tlc.make_cfg(constants=dict(Depth=3), spec="Spec", invariants=["EmitLeafSim"])
    e = tlc.run("OpAlgebra", cfg, mode="simulate", simulate=400 if ctx.tier == "quick" else 4000, depth=5, seed=ctx.seed + 3, workers=1, timeout=3000)
    ctx.add_tlc(e, "simulate programs of depth 3")
    progs = list(cases[0]) + hc.sample(cases[1], 12000 if ctx.tier == "quick" else None, ctx.seed) + list(e["emitted"])
    items = list(enumerate(progs))
    n = 64
    res = pmap(replay_ops.replay_chunk, [(items[i::n], ctx.seed) for i in range(n) if items[i::n]], chunksize=1)
    byid = dict(items)
    counts = {}
    for st, rr in res:
        if st != "ok":
            raise MachineryError("ops replay worker failed: " + rr)
        for cid, qn_size, out in rr:
            case = byid[cid]
            ctx.case(fingerprint=json.dumps([case["atoms"], qn_size, [[h["op"], h["a"], h["b"], h["r"], h["k"]] for h in case["hist"]]]),
                     nontrivial=out["nontrivial"])
            for h in case["hist"][: out["steps"]]:
                counts[h["op"]] = counts.get(h["op"], 0) + 1
            for key, what, detail in out["viol"]:
                ctx.violation(key, what, detail)
    ctx.notes["operations_executed"] = counts
    ctx.sample({"atoms": progs[len(progs) // 2]["atoms"], "program": [[h["op"], h["a"], h["b"], h["r"], h["k"]] for h in progs[len(progs) // 2]["hist"]],
                "expected_result": progs[len(progs) // 2]["hist"][-1]["res"]})
    ctx.traces(0)
    ctx.cov["rule"] = ("programs = sequences of <= 2 (all; quick: seeded sample of depth 2) and 3 (simulated) public arithmetic operations over 4 registers "
                       "initialised with two atom sets (single/multi-symbol, repeated DoF, identity terms, empty sum, cancelling and complex terms), "
                       "enumerated by TLC; executed on real Op/OpSum with 1- and 2-component quantum numbers and int/float/complex/NumPy scalars; "
                       "non-trivial = contains Mul/Simplify/IAdd/Sub; distinct = (atom set, qn size, operation sequence)")
    ctx.assumptions += ["dense oracle on a two-spin model with hand-written Pauli matrices; coefficients are Gaussian rationals with denominator 4"]
