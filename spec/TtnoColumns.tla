------------------------------ MODULE TtnoColumns ------------------------------
(* tn/symbolic_ttno.py construct_symbolic_ttno: the column bookkeeping of the term table while the
   nodes are visited in post-order (np.roll(table, m), row/col split, np.roll(table, -1)).
   Columns carry tags: <<"p", node, j>> physical column j of node, <<"b", node>> bond node->parent, <<"d">> dummy. *)
EXTENDS Integers, Sequences, FiniteSets, TLC, Json
CONSTANTS K, MaxSets
Nodes == 1..K
VARIABLES par, nsets, dummy, cols, visit, order, ok
vars == <<par, nsets, dummy, cols, visit, order, ok>>

ChildSet(p, n) == {m \in Nodes : m # 1 /\ p[m] = n}
ChildSeq(p, n) == LET S == ChildSet(p, n) IN
                  CHOOSE s \in [1..Cardinality(S) -> S] : \A i, j \in 1..Cardinality(S) : i < j => s[i] < s[j]
RECURSIVE Post(_, _), PostSeq(_, _, _)
PostSeq(p, ch, i) == IF i > Len(ch) THEN <<>> ELSE Post(p, ch[i]) \o PostSeq(p, ch, i + 1)
Post(p, n) == PostSeq(p, ChildSeq(p, n), 1) \o <<n>>                 \* Tree.postorder_list
Phys(ns, n) == [j \in 1..ns[n] |-> <<"p", n, j>>]
RECURSIVE Flat(_, _, _)
Flat(ns, ord, i) == IF i > Len(ord) THEN <<>> ELSE Phys(ns, ord[i]) \o Flat(ns, ord, i + 1)
Roll(s, m) == IF Len(s) = 0 THEN s ELSE LET n == Len(s) IN [i \in 1..n |-> s[((i - 1 - m) % n) + 1]]   \* np.roll(axis=1)

Init == /\ par \in {p \in [Nodes -> 0..K] : p[1] = 0 /\ \A n \in Nodes \ {1} : p[n] \in 1..(n - 1)}
        /\ nsets \in [Nodes -> 1..MaxSets]      \* a purely virtual node carries one (dummy) basis set, so it also has one column
        /\ dummy \in SUBSET {n \in Nodes : nsets[n] = 1}
        /\ order = Post(par, 1)
        /\ cols = Flat(nsets, Post(par, 1), 1)          \* _terms_to_table over the post-order basis list
        /\ visit = 1 /\ ok = TRUE

Visit ==
  /\ visit <= K
  /\ LET n == order[visit]
         k == nsets[n]
         ch == ChildSeq(par, n)
         m == Len(ch)
         t1 == IF m = 0 THEN << <<"d">> >> \o cols ELSE Roll(cols, m)
         rowpart == SubSeq(t1, 1, (IF m = 0 THEN 1 ELSE m) + k)
         colpart == SubSeq(t1, (IF m = 0 THEN 1 ELSE m) + k + 1, Len(t1))
         expect == (IF m = 0 THEN << <<"d">> >> ELSE [i \in 1..m |-> <<"b", ch[i]>>]) \o Phys(nsets, n)
         t2 == << <<"b", n>> >> \o colpart                         \* new table: out-op column + untouched columns
     IN /\ ok' = (ok /\ rowpart = expect)
        /\ cols' = Roll(t2, -1)                                    \* move the new column to the last index
  /\ visit' = visit + 1
  /\ UNCHANGED <<par, nsets, dummy, order>>
Next == Visit
Spec == Init /\ [][Next]_vars
Aligned == ok
Final == visit = K + 1 => cols = << <<"b", 1>> >>

\* ------------------------------------------------------------------ Tree facts used by the harness (renormalizer/tn/treebase.py)
\* post-order visits every node exactly once, children before parents, each subtree contiguously
PostOrderInv == /\ Len(order) = K /\ {order[i] : i \in 1..K} = Nodes
                /\ \A n \in Nodes \ {1} : (CHOOSE i \in 1..K : order[i] = n) < (CHOOSE i \in 1..K : order[i] = par[n])
\* emission of every tree case: parent vector (0-based for the harness), sets per node, dummy flags, post-order
EmitTree == (visit = 1) => PrintT(<<"EMIT", ToJson([par |-> [n \in Nodes |-> par[n] - 1], nsets |-> nsets,
                                                     dummy |-> [n \in Nodes |-> n \in dummy], postorder |-> [i \in 1..K |-> order[i] - 1]])>>)
NoExpand == visit > K + 5
=============================================================================
