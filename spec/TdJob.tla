------------------------------- MODULE TdJob -------------------------------
(* Argument case analysis and step loop of TdMpsJob.evolve(evolve_dt, nsteps, evolve_time)  (renormalizer/utils/tdmps.py),
   in integer time quanta.  Absent arguments are 0.
     (dt, n, T) -> T ignored, n steps of dt            (dt, n) -> n steps of dt
     (n, T)     -> dt = T / n, n steps                 (dt)    -> until stop_evolve_criteria (here: MaxFree steps)
     (dt, T)    -> the code takes  T div dt + 1  steps (Floor = FALSE mirrors the code; TRUE is the documented meaning
                   "evolve_dt x nsteps = evolve_time")
   One action = one iteration of the step loop (evolve_single_step + process_mps + dump).                        *)
EXTENDS Integers, Sequences, TLC, Json
CONSTANTS MaxQ, MaxN, MaxFree, Floor

VARIABLES dt, n, T, steps, time, todo, dumps
vars == <<dt, n, T, steps, time, todo, dumps>>

Accepted(d, k, t) == (d > 0 /\ k > 0) \/ (d = 0 /\ k > 0 /\ t > 0 /\ t % k = 0) \/ (d > 0 /\ k = 0)
NSteps(d, k, t) == IF k > 0 THEN k
                   ELSE IF t > 0 THEN (IF Floor /\ t % d = 0 THEN t \div d ELSE t \div d + 1)
                   ELSE MaxFree
StepSize(d, k, t) == IF d > 0 THEN d ELSE t \div k

Init == /\ dt \in 0..MaxQ /\ n \in 0..MaxN /\ T \in 0..(MaxQ * MaxN)
        /\ Accepted(dt, n, T)
        /\ steps = 0 /\ time = 0 /\ todo = NSteps(dt, n, T) /\ dumps = 0
Step == /\ todo > 0
        /\ time' = time + StepSize(dt, n, T) /\ steps' = steps + 1 /\ todo' = todo - 1 /\ dumps' = dumps + 1
        /\ UNCHANGED <<dt, n, T>>
Spec == Init /\ [][Step]_vars /\ WF_vars(Step)

Done == todo = 0
\* one process_mps / dump per step, evolve_times advances by the step size
OnePerStep == dumps = steps /\ time = steps * StepSize(dt, n, T)
\* the documented final time
FinalTime == Done => /\ (n > 0 /\ dt > 0 => time = n * dt)
                     /\ (n > 0 /\ dt = 0 => time = T)
                     /\ (n = 0 /\ T > 0 /\ T % dt = 0 => time = T)            \* evolve_dt x nsteps = evolve_time
                     /\ (n = 0 /\ T > 0 /\ T % dt # 0 => time >= T /\ time - T < dt)
Terminates == <>Done
Emit == (steps = 0) => PrintT(<<"EMIT", ToJson([dt |-> dt, n |-> n, T |-> T, steps |-> NSteps(dt, n, T), final |-> NSteps(dt, n, T) * StepSize(dt, n, T)])>>)
=============================================================================
