------------------------------ MODULE TreeSweep ------------------------------
(* tn/time_evolution.py: _tdvp_ps_forward / _tdvp_ps_backward as an explicit-stack machine over every
   rooted ordered tree with K nodes; environments carry version stamps so that staleness propagates.   *)
EXTENDS Integers, Sequences, FiniteSets, TLC, Json
CONSTANT K
Nodes == 1..K
VARIABLES par, stack, phase, ver, cst, pst, centre, fwd, bond, bad, evs
vars == <<par, stack, phase, ver, cst, pst, centre, fwd, bond, bad, evs>>

RECURSIVE Anc(_, _)
Anc(p, n) == IF n = 1 THEN {1} ELSE {n} \cup Anc(p, p[n])          \* n and its ancestors
Sub(n) == {m \in Nodes : n \in Anc(par, m)}                          \* subtree of n
Out(n) == Nodes \ Sub(n)
ChildSet(n) == {m \in Nodes : m # 1 /\ par[m] = n}
Children(n) == LET S == ChildSet(n) IN
               CHOOSE s \in [1..Cardinality(S) -> S] : \A i, j \in 1..Cardinality(S) : i < j => s[i] < s[j]
NCh(n) == Cardinality(ChildSet(n))

\* environment child->parent of n is a function of all tensors in Sub(n); parent->child of all tensors in Out(n)
FreshC(n) == \A m \in Sub(n) : cst[n][m] = ver[m]
FreshP(n) == \A m \in Out(n) : pst[n][m] = ver[m]
\* recomputation from the *stored* neighbouring environments (staleness propagates) and the current tensor of x
BuildC(v, c, n) == [m \in Nodes |-> IF m = n THEN v[n]
                                    ELSE IF \E ch \in ChildSet(n) : m \in Sub(ch)
                                         THEN c[CHOOSE ch \in ChildSet(n) : m \in Sub(ch)][m] ELSE 0]
BuildP(v, c, p, s, ch) == [m \in Nodes |-> IF m = s THEN v[s]
                                    ELSE IF m \in Out(s) THEN p[s][m]
                                    ELSE IF \E o \in ChildSet(s) \ {ch} : m \in Sub(o)
                                         THEN c[CHOOSE o \in ChildSet(s) \ {ch} : m \in Sub(o)][m] ELSE 0]
Bump(v, S) == [m \in Nodes |-> IF m \in S THEN v[m] + 1 ELSE v[m]]
Reads1(n) == (\A ch \in ChildSet(n) : FreshC(ch)) /\ FreshP(n)      \* hop_expr1
Reads0(n) == FreshC(n) /\ FreshP(n)                                  \* hop_expr0 on the bond n - parent

Init == /\ par \in {p \in [Nodes -> 0..K] : p[1] = 0 /\ \A n \in Nodes \ {1} : p[n] \in 1..(n-1)}
        /\ stack = << <<1, 0>> >> /\ phase = "fwd"
        /\ ver = [n \in Nodes |-> 0]
        /\ cst = [n \in Nodes |-> [m \in Nodes |-> 0]] /\ pst = [n \in Nodes |-> [m \in Nodes |-> 0]]
        /\ centre = 1 /\ fwd = [n \in Nodes |-> 0] /\ bond = [n \in Nodes |-> 0] /\ bad = {} /\ evs = <<>>

Top == stack[Len(stack)]
Pop == SubSeq(stack, 1, Len(stack) - 1)

FwdLeafOrLast ==
  LET s == Top[1] IN
  /\ phase = "fwd" /\ stack # <<>> /\ Top[2] = NCh(s)
  /\ LET b1 == IF Reads1(s) /\ centre = s THEN {} ELSE {<<"1site", s>>}
         v1 == Bump(ver, {s})                                    \* snode.tensor = ms
     IN IF s = 1
        THEN /\ ver' = v1 /\ bad' = bad \cup b1 /\ UNCHANGED <<cst, pst, centre, bond>>
        ELSE LET v2 == Bump(v1, {s})                             \* decompose_to_parent
                 c2 == [cst EXCEPT ![s] = BuildC(v2, cst, s)]    \* build_children_environ_node(snode)
                 ok0 == (\A m \in Sub(s) : c2[s][m] = v2[m]) /\ (\A m \in Out(s) : pst[s][m] = v2[m])
                 v3 == Bump(v2, {par[s]})                        \* merge_to_parent
             IN /\ ver' = v3 /\ cst' = c2 /\ UNCHANGED pst
                /\ bad' = bad \cup b1 \cup (IF ok0 THEN {} ELSE {<<"0site", s>>})
                /\ centre' = par[s] /\ bond' = [bond EXCEPT ![s] = @ + 1]
  /\ fwd' = [fwd EXCEPT ![s] = @ + 1]
  /\ evs' = evs \o (IF s = 1 THEN << <<"1site", s>> >> ELSE << <<"1site", s>>, <<"0site", s>> >>)
  /\ stack' = Pop
  /\ phase' = IF Len(stack) = 1 THEN "mid" ELSE phase
  /\ UNCHANGED par

FwdDescend ==
  LET s == Top[1]  i == Top[2] + 1 IN
  /\ phase = "fwd" /\ stack # <<>> /\ Top[2] < NCh(s)
  /\ LET ch == Children(s)[i]
         v1 == Bump(ver, {s, ch})                                \* push_cano_to_child
         p1 == [pst EXCEPT ![ch] = BuildP(v1, cst, pst, s, ch)]  \* build_parent_environ_node(snode, ichild)
     IN /\ ver' = v1 /\ pst' = p1 /\ centre' = ch
        /\ bad' = bad \cup (IF centre = s THEN {} ELSE {<<"cano", s>>})
        /\ stack' = Append([stack EXCEPT ![Len(stack)] = <<s, i>>], <<ch, 0>>)
  /\ UNCHANGED <<par, phase, cst, fwd, bond, evs>>

StartBwd == /\ phase = "mid" /\ phase' = "bwd" /\ stack' = << <<1, 0>> >>
            /\ UNCHANGED <<par, ver, cst, pst, centre, fwd, bond, bad, evs>>

\* one iteration of the while loop of _tdvp_ps_backward
Bwd ==
  LET s == Top[1]  i == Top[2] IN
  /\ phase = "bwd" /\ stack # <<>>
  /\ LET first == (i = 0)
         b1 == IF first /\ ~(Reads1(s) /\ centre = s) THEN {<<"1site-b", s>>} ELSE {}
         v1 == IF first THEN Bump(ver, {s}) ELSE ver
         f1 == IF first THEN [fwd EXCEPT ![s] = @ + 1] ELSE fwd
     IN IF i = NCh(s)
        THEN \* all children done: push_cano_to_parent + build_children_environ_node, pop
             /\ IF s = 1 THEN /\ ver' = v1 /\ UNCHANGED <<cst, centre>>
                         ELSE LET v2 == Bump(v1, {s, par[s]}) IN
                              /\ ver' = v2 /\ cst' = [cst EXCEPT ![s] = BuildC(v2, cst, s)] /\ centre' = par[s]
             /\ bad' = bad \cup b1 /\ fwd' = f1 /\ stack' = Pop /\ UNCHANGED <<pst, bond>>
             /\ evs' = evs \o (IF first THEN << <<"1site", s>> >> ELSE <<>>)
             /\ phase' = IF Len(stack) = 1 THEN "done" ELSE phase
        ELSE LET ch == Children(s)[i + 1]
                 v2 == Bump(v1, {s})                                  \* decompose_to_child
                 p2 == [pst EXCEPT ![ch] = BuildP(v2, cst, pst, s, ch)] \* build_parent_environ_node
                 ok0 == (\A m \in Sub(ch) : cst[ch][m] = v2[m]) /\ (\A m \in Out(ch) : p2[ch][m] = v2[m])
                 v3 == Bump(v2, {ch})                                 \* merge_to_child
             IN /\ ver' = v3 /\ pst' = p2 /\ centre' = ch /\ UNCHANGED cst
                /\ bad' = bad \cup b1 \cup (IF ok0 THEN {} ELSE {<<"0site-b", ch>>})
                /\ bond' = [bond EXCEPT ![ch] = @ + 1] /\ fwd' = f1
                /\ evs' = evs \o (IF first THEN << <<"1site", s>> >> ELSE <<>>) \o << <<"0site", ch>> >>
                /\ stack' = Append([stack EXCEPT ![Len(stack)] = <<s, i + 1>>], <<ch, 0>>)
                /\ phase' = phase
  /\ UNCHANGED par

Next == FwdLeafOrLast \/ FwdDescend \/ StartBwd \/ Bwd
Spec == Init /\ [][Next]_vars

EnvFresh == bad = {}
HalfSweep == phase = "mid" => /\ \A n \in Nodes : fwd[n] = 1
                              /\ \A n \in Nodes \ {1} : bond[n] = 1
                              /\ centre = 1
FullSweep == phase = "done" => /\ \A n \in Nodes : fwd[n] = 2
                               /\ \A n \in Nodes \ {1} : bond[n] = 2
                               /\ centre = 1

\* ------------------------------------------------------------------ emission: the local-evolution schedule of one full step
\* (which node / which bond is evolved, in order) for every tree: compared with the calls recorded from the real sweep
EmitSchedule == (phase = "done") => PrintT(<<"EMIT", ToJson([par |-> [n \in Nodes |-> par[n] - 1], events |-> [i \in 1..Len(evs) |-> <<evs[i][1], evs[i][2] - 1>>]])>>)
=============================================================================
