"""Dense-oracle engine for time evolution of chain states (C09 real time, C10 imaginary time), driven by
(configuration, call history) pairs enumerated by TLC from EvolveSpace.tla.

For every pair the real library is stepped along the history; after EVERY call the result is compared with the dense
propagator applied to the initial state, the bond limit, the symmetry sector and the untouched input (frame) are
checked; single-call histories additionally get the order test (one step vs two half steps), the repeat test (the same
input evolved twice gives the same result) and, where a local integrator can be selected, the other integrator.
"""
import numpy as np
from scipy.linalg import expm

from . import states as st
from . import concretize as cz
from .common import rng_for, reseed_global

ORDER = {"Forward_Euler": 1, "midpoint_RK2": 2, "Heun_RK2": 2, "Ralston_RK2": 2, "Kutta_RK3": 3, "C_RK4": 4, "38rule_RK4": 4,
         "Fehlberg5": 5, "RKF45": 5, "Cash-Karp45": 5}
TAU = 0.15           # time quantum in units of 1/||H||


class System:
    def __init__(self, fam, N, seed, variant):
        from renormalizer.mps import Mpo
        from renormalizer.model import Model
        from .replay_heap import Universe
        from .replay_mpo import build_ops
        u = Universe(fam, N, "mps", 1, seed, variant)
        self.u = u
        self.basis, self.alphas = u.basis, u.alphas
        H = np.real_if_close(u.dense_op["H"])
        self.nrm = float(np.linalg.norm(H, 2))
        self.terms = [(w, c / self.nrm) for w, c in u.terms["H"]]
        self.H = np.asarray(H, dtype=float) / self.nrm
        # a second Hermitian operator that does not commute with H: the on-site part of H with fresh weights
        rng = rng_for(seed, "evolve-V", fam, N, variant)
        onsite = [(w, float(rng.uniform(-1, 1))) for w, c in u.terms["H"] if sum(1 for x in w if x) == 1]
        vd = np.real_if_close(cz.dense_terms(onsite, self.basis, self.alphas))
        vn = float(np.linalg.norm(vd, 2)) or 1.0
        self.vterms = [(w, c / vn) for w, c in onsite]
        self.V = np.asarray(vd, dtype=float) / vn
        self.qn_size = u.qn_size
        self.model = Model(list(self.basis), build_ops(self.terms, self.basis, self.alphas, {}, None, self.qn_size))
        self.mpo = Mpo(self.model)
        self.vmpo = Mpo(self.model, build_ops(self.vterms, self.basis, self.alphas, {}, None, self.qn_size))
        self.qntot = st.best_sector(self.basis)
        self.mask = st.sector_projector(self.basis, self.qntot)
        self.dims = [b.nbas for b in self.basis]
        self.caps = st.exact_bond_caps(self.dims)
        self._td_cache = {}

    def f(self, t):
        return 0.8 * np.sin(2.5 * t)

    def mpo_t(self, t, *a, **kw):
        key = round(float(np.real(t)), 12)
        if key not in self._td_cache:
            self._td_cache[key] = self.mpo.add(self.vmpo.scale(self.f(key)))
        return self._td_cache[key]

    def propagate(self, psi, t0, t1, td, imag):
        """dense reference: psi(t1) from psi(t0)."""
        if not td:
            if imag:
                return expm(-(t1 - t0) * self.H) @ psi
            return expm(-1j * (t1 - t0) * self.H) @ psi
        n = 400
        h = (t1 - t0) / n
        out = psi.astype(complex)
        for k in range(n):
            tm = t0 + (k + 0.5) * h
            # 4th-order commutator-free Magnus (two Gauss points) is overkill here: midpoint with 400 steps gives 1e-7
            out = expm(-1j * h * (self.H + self.f(tm) * self.V)) @ out
        return out


def generic_state(sys_, keys, form, gauge, cplx):
    """full-bond state with Schmidt values bounded away from zero (regularised schemes need it)."""
    from renormalizer.mps import MpDm
    for attempt in range(6):
        k = keys + (attempt,)
        m = st.random_mps(sys_.model, sys_.qntot, 64, k + ("a",), cplx=cplx)
        for j in range(3):
            m = m.add(st.random_mps(sys_.model, sys_.qntot, 64, k + ("b", j), cplx=cplx).scale(0.7 - 0.15 * j))
        m.ensure_left_canonical()
        m.canonicalise()
        m.compress(temp_m_trunc=10 ** 6)       # removes redundant bonds: left-canonical, centre at the end
        m = m.scale(1.0 / m.mp_norm)
        if form == "mpdm":
            parts = [MpDm.from_mps(m)]
            for j in range(5):
                parts.append(MpDm.from_mps(st.random_mps(sys_.model, sys_.qntot, 64, k + ("d", j))).scale(0.8 - 0.1 * j))
            d = parts[0]
            for p in parts[1:]:
                d = d.add(p)
            if cplx:
                d = st.complexify(d, rng_for(*k, "cplx"))
            d.ensure_left_canonical()
            d.canonicalise()
            d.compress(temp_m_trunc=10 ** 6)
            d = d.scale(1.0 / d.mp_norm)
            m = d
        sv = m.calc_bond_singular_values() if form == "mps" else None
        if sv is None or min(float(np.min(row[row > 0])) for row in sv if np.any(row > 0)) > 2e-2:
            break
    if gauge in ("skew", "skewL", "skewR"):
        # same state, same bonds, same flags, but an invertible gauge X / X^-1 inserted on a middle bond: the tensors are no longer isometries
        # X is block diagonal in the bond's quantum-number labels (it must not mix sectors), dense inside a block, complex
        # for complex states: the left overlap matrix X^+ X is then a genuinely non-diagonal (complex) Hermitian matrix
        # both flag settings occur: "claims left-canonical" (centre at the end, to_right False) and "claims right-canonical"
        if gauge == "skewR":
            m.ensure_right_canonical()
        else:
            m.ensure_left_canonical()
        # on EVERY bond (a gauge next to the centre is absorbed by it; which bonds matter depends on the scheme)
        r = rng_for(*keys, "skew")
        for k in range(len(m) - 1):
            d = m[k].shape[-1]
            lab = [tuple(np.atleast_1d(q)) for q in np.asarray(m.qn[k + 1])]
            X = np.zeros((d, d), dtype=complex if cplx else float)
            for q in sorted(set(lab)):
                idx = [i for i, l in enumerate(lab) if l == q]
                for attempt in range(20):
                    # every direction is rescaled by a factor well away from 1 (exp(+-[0.4, 0.7])); redraw ill-conditioned blocks
                    blk = np.diag(np.exp(r.choice([-1.0, 1.0], size=len(idx)) * r.uniform(0.4, 0.7, size=len(idx)))).astype(X.dtype)
                    blk = blk + (0.25 / np.sqrt(len(idx))) * (r.normal(size=(len(idx),) * 2) + (1j * r.normal(size=(len(idx),) * 2) if cplx else 0))
                    if np.linalg.cond(blk) < 8:
                        break
                X[np.ix_(idx, idx)] = blk
            Xi = np.linalg.inv(X)
            m[k] = np.tensordot(m[k].array, X, axes=(-1, 0))
            m[k + 1] = np.tensordot(Xi, m[k + 1].array, axes=(1, 0))
    if gauge == "cano1":
        m.canonicalise()
    elif gauge == "moved":
        m.move_qnidx(len(m) // 2 - 1 if len(m) > 2 else 0)
    return m


def make_config(scheme, c, dt, sys_):
    from renormalizer.utils import EvolveConfig, EvolveMethod
    meth = {"pc_taylor": EvolveMethod.prop_and_compress, "pc_rk4": EvolveMethod.prop_and_compress_tdrk4, "pc_rk": EvolveMethod.prop_and_compress_tdrk,
            "ps": EvolveMethod.tdvp_ps, "ps2": EvolveMethod.tdvp_ps2, "vmf": EvolveMethod.tdvp_vmf, "mu_vmf": EvolveMethod.tdvp_mu_vmf,
            "cmf": EvolveMethod.tdvp_mu_cmf}[scheme]
    # guess_dt must share the phase of dt (EvolveConfig.check_valid_dt raises otherwise): a documented precondition
    kw = dict(ivp_rtol=1e-9, ivp_atol=1e-11, ivp_solver=c["solver"], force_ovlp=c["force_ovlp"], guess_dt=dt)
    adaptive = bool(c["adaptive"]) and scheme in ("pc_taylor", "pc_rk", "ps", "ps2", "cmf") and scheme == c["scheme"]
    if adaptive:
        # a guess larger than the step (so that the first trial is the whole step and may be rejected), same phase as dt
        # tight tolerance for the propagate-and-compress controllers so that the first trial (the whole step) IS rejected
        kw.update(adaptive=True, guess_dt=dt * 1.0, adaptive_rtol={"cmf": 1e-3, "ps": 1e-6, "ps2": 1e-6}.get(scheme, 1e-8))
    if scheme == "pc_rk":
        kw["rk_solver"] = c["rk"] if scheme == c["scheme"] else "C_RK4"
    cfg = EvolveConfig(meth, **kw)
    if scheme == "cmf":
        cfg.tdvp_cmf_midpoint = c["cmf"] != "first"
        cfg.tdvp_cmf_c_trapz = c["cmf"] == "trapz"
    cfg.vmf_auto_switch = False
    return cfg


def scheme_order(scheme, c):
    """formal order p of the scheme (None = exact up to solver tolerance at sufficient bond)."""
    if scheme == "pc_taylor":
        return 5 if c["adaptive"] else 4
    if scheme == "pc_rk4":
        return 4
    if scheme == "pc_rk":
        return ORDER[c["rk"]] if scheme == c["scheme"] else 4
    if scheme == "cmf":
        return 1 if c["cmf"] == "first" else 2
    return None


class PsRecorder:
    """records what one non-adaptive one-site projector-splitting call does: environment reads, system-block rebuilds and the
    sign of every local Krylov evolution (forward = the direction of the requested step)."""

    def __init__(self, dt):
        self.dt, self.events = dt, []

    def __enter__(self):
        import renormalizer.mps.mps as mm
        from renormalizer.mps.lib import Environ
        self.mm, self.Environ = mm, Environ
        self.o_read, self.o_get, self.o_exp = Environ.read, Environ.GetLR, mm.expm_krylov
        rec = self
        state = {"in_get": 0, "last": None}

        # recorders never interfere: arguments pass through untouched; what cannot be interpreted is "unobserved" (=> SPEC-DRIFT at most)
        def read(self_, *a, **k):
            try:
                if not state["in_get"]:
                    rec.events.append(["read", a[0], int(a[1])])
            except Exception:
                rec.events.append(["unobserved"])
            return rec.o_read(self_, *a, **k)

        def get(self_, *a, **k):
            state["in_get"] += 1
            try:
                try:
                    if k.get("method", a[5] if len(a) > 5 else None) == "System":
                        rec.events.append(["sys", a[0], int(a[1])])
                        state["last"] = "sys"
                except Exception:
                    rec.events.append(["unobserved"])
                return rec.o_get(self_, *a, **k)
            finally:
                state["in_get"] -= 1

        def expm(*a, **k):
            try:
                ratio = complex(a[1]) / (-1j * complex(rec.dt) / 2)
                rec.events.append(["ev", "+" if ratio.real > 0 else "-"])
            except Exception:
                rec.events.append(["unobserved"])
            state["last"] = None
            return rec.o_exp(*a, **k)
        from renormalizer.mps.mp import MatrixProduct
        self.MP, self.o_upd = MatrixProduct, MatrixProduct._update_mps

        def upd(self_, *a, **k):
            try:
                cidx = a[1] if len(a) > 1 else k["cidx"]
                rec.events.append(["upd", int(cidx[0]), int(cidx[-1])])
            except Exception:
                rec.events.append(["unobserved"])
            return rec.o_upd(self_, *a, **k)
        Environ.read, Environ.GetLR, mm.expm_krylov, MatrixProduct._update_mps = read, get, expm, upd
        return self

    def __exit__(self, *a):
        self.Environ.read, self.Environ.GetLR, self.mm.expm_krylov, self.MP._update_mps = self.o_read, self.o_get, self.o_exp, self.o_upd


def evolve_once(sys_, state, scheme, c, dt, td, keep_config=False):
    from renormalizer.utils import CompressConfig, CompressCriteria
    if not keep_config:
        state.evolve_config = make_config(scheme, c, dt, sys_)
    cc = CompressConfig(CompressCriteria.fixed, max_bonddim=int(max(sys_.caps)) ** (2 if c["form"] == "mpdm" else 1))
    state.compress_config = cc
    op = sys_.mpo_t if td else sys_.mpo
    return state.evolve(op, dt)


def run_case(sys_, case, idx, seed):
    """-> dict(viol=[...], meas=[...]) ; meas records (scheme class, tau, error, ratio) for calibration/evidence."""
    c, calls = case["cfg"], case["calls"]
    out = {"viol": [], "meas": [], "nontrivial": len(calls) > 1 or c["adaptive"] or c["gauge"] != "fresh"}
    imag, td, form = bool(c["imag"]), bool(c["td"]), c["form"]
    pid = "C10" if imag else "C09"
    detail = {"cfg": c, "calls": calls, "system": [sys_.u.fam, sys_.u.N], "idx": idx}

    def V(key, what, extra=None):
        out["viol"].append((key, what, dict(detail, **(extra or {}))))
    try:
        psi0 = generic_state(sys_, (seed, "evolve", idx), form, c["gauge"], cplx=(idx % 2 == 1))
    except Exception as e:
        V(f"{pid}:init-raises", f"preparing the initial state raised {type(e).__name__}: {e}")
        return out
    ref0 = st.dense(psi0)
    vec0 = ref0.reshape(-1) if form == "mps" else ref0
    full_bond = all(x >= y for x, y in zip(psi0.bond_dims, (sys_.caps if form == "mps" else st.exact_bond_caps(sys_.dims, squared=True))))
    cur = psi0
    t = 0.0
    allowed = 0.0
    ref = vec0.astype(complex)
    for ci, call in enumerate(calls):
        scheme = call["scheme"]
        tau = call["q"] * TAU
        dt = -1j * tau if imag else tau
        before = st.dense(cur)
        before_sv = None
        if form == "mps" and ci > 0:
            try:
                rows = cur.copy().calc_bond_singular_values()
                before_sv = min(float(np.min(r_[r_ > 1e-14])) for r_ in rows if np.any(r_ > 1e-14))
            except Exception:
                before_sv = None
        cfg_before = cur.evolve_config
        try:
            adaptive_here = bool(c["adaptive"]) and scheme == c["scheme"] and scheme in ("pc_taylor", "pc_rk", "ps", "ps2")
            if adaptive_here:
                from . import adaptive_trace
                with adaptive_trace.LogRecorder() as lrec:
                    new = evolve_once(sys_, cur, scheme, c, dt, td)
                evs = adaptive_trace.events(lrec.messages, dt)
                out.setdefault("adaptive_traces", []).append({"kind": scheme, "target": adaptive_trace.UNITS, "tol": 20, "events": evs or [], "call": ci, "idx": idx})
            elif scheme in ("ps", "ps2") and c["solver"] == "krylov" and not (c["adaptive"] and scheme == c["scheme"]):
                start = "R" if cur.to_right else "L"
                with PsRecorder(dt) as prec:
                    new = evolve_once(sys_, cur, scheme, c, dt, td)
                out.setdefault("ps_traces", []).append({"n": len(cur), "start": start, "scheme": scheme, "events": prec.events, "idx": idx, "call": ci})
            else:
                new = evolve_once(sys_, cur, scheme, c, dt, td)
        except Exception as e:
            import traceback
            tb = traceback.format_exc(limit=4).splitlines()
            V(f"{pid}:raises:{scheme}:{type(e).__name__}", f"evolve raised {type(e).__name__}: {e} | {tb[-3].strip() if len(tb) > 3 else ''}", {"call": ci})
            return out
        # frame: the input keeps its value
        err_in = np.linalg.norm(st.dense(cur) - before)
        if err_in > 1e-10 * (np.linalg.norm(before) + 1):
            V(f"C13:evolve-disturbs-input:{scheme}:{'imag' if imag else 'real'}", f"evolve changed its input state by {err_in:.2e}", {"call": ci})
        if new is cur:
            V(f"C13:evolve-returns-input:{scheme}:{'imag' if imag else 'real'}", "evolve returned its input object", {"call": ci})
        # reference
        # a time-dependent Hamiltonian callable is documented to receive the time elapsed WITHIN the call (0 .. evolve_dt)
        t_a, t_b = (0.0, tau) if td else (t, t + tau)
        if form == "mps":
            ref = sys_.propagate(ref, t_a, t_b, td, imag)
        else:
            ref = np.stack([sys_.propagate(ref[:, k], t_a, t_b, td, imag) for k in range(ref.shape[1])], axis=1)
        t += tau
        got = st.dense(new)
        gv = got.reshape(-1) if form == "mps" else got
        # evolve(normalize=True) rescales the result ("mps_and_coeff" in imaginary time, "mps_only" in real time): compare directions
        rn = ref / np.linalg.norm(ref)
        gn = gv / (np.linalg.norm(gv) + 1e-300)
        err = float(np.linalg.norm(gn - rn))
        if imag and abs(np.linalg.norm(gv) - 1) > 1e-8:
            V(f"C10:norm-after-imag:{scheme}", f"after imaginary-time evolve the state has norm {np.linalg.norm(gv)} (normalize='mps_and_coeff' promises 1)", {"call": ci})
        if not imag and abs(new.mp_norm - 1) > 1e-8:
            V(f"C09:norm-after-evolve:{scheme}", f"after real-time evolve the tensor part has norm {new.mp_norm} (normalize='mps_only' promises 1)", {"call": ci})
        p = scheme_order(scheme, c)
        exactish = p is None and (full_bond or scheme in ("pc_taylor", "pc_rk4", "pc_rk", "ps2"))
        out["meas"].append({"scheme": scheme, "p": p, "tau": tau, "err": err, "adaptive": bool(c["adaptive"]) and scheme == c["scheme"], "solver": c["solver"],
                            "imag": imag, "td": td, "form": form, "full_bond": full_bond, "call": ci, "gauge": c["gauge"], "cmf": c["cmf"]})
        b1 = error_bound(scheme, c, tau, td, form, full_bond, ncalls=1)
        if ci > 0 and scheme in ("cmf", "vmf", "mu_vmf") and form == "mps" and b1 is not None:
            # the regularised one-site schemes are accurate only while the smallest Schmidt value of their INPUT stays away from the
            # regularisation scale; after an earlier call (imaginary time in particular) that has to be re-checked
            try:
                sv_in = before_sv
                if sv_in is not None and sv_in < 2e-2:
                    b1 = None
            except NameError:
                pass
        allowed = None if (b1 is None or allowed is None) else allowed + b1
        bound = allowed
        if bound is not None and err > bound and ci > 0 and scheme in ("cmf", "vmf", "mu_vmf") and form == "mps" and not td \
                and not (c["adaptive"] and scheme == c["scheme"]):
            # The property promises convergence to the propagator, not a constant at one step size: on a state produced by earlier
            # calls a single large regularised one-site step can be pre-asymptotic (seed 0, thorough, elec-4: CMF imaginary time,
            # tau = 0.30 after ps + pc_rk4: 1.2e-1 in one step, 8.3e-5 in four, 1.4e-5 in eight).  The claim for a LATER call of
            # these schemes is therefore made on the same call split into four equal steps; it stays a violation if that is
            # outside the bound too, and the history continues from the refined state.
            try:
                h = cur
                sv_path = 1.0
                for _ in range(4):
                    h = evolve_once(sys_, h, scheme, c, dt / 4, td)
                    rows = h.copy().calc_bond_singular_values()
                    sv_path = min(sv_path, min(float(np.min(r_[r_ > 1e-14])) for r_ in rows if np.any(r_ > 1e-14)))
                g4 = st.dense(h).reshape(-1)
                err4 = float(np.linalg.norm(g4 / (np.linalg.norm(g4) + 1e-300) - rn))
                out["meas"][-1]["refined_err"] = err4
                if err4 <= bound:
                    out["meas"][-1]["preasymptotic"] = True
                    err, new, gv = err4, h, g4
                elif sv_path < 2e-2:
                    # a Schmidt value passes through zero inside this call (here 0.045 -> 3e-4 after tau/2): below the regularisation
                    # scale the one-site schemes make no accuracy promise (DESIGN 0.3), so no claim from here on
                    out["meas"][-1]["schmidt_zero_crossing"] = sv_path
                    allowed = bound = None
            except Exception:
                pass
        if bound is not None and err > bound:
            V(f"{pid}:accuracy:{scheme}" + (":adaptive" if (c["adaptive"] and scheme == c["scheme"]) else "") + (f":{c['gauge']}" if c["gauge"] != "fresh" else "") + (":td" if td else ""),
              f"after call {ci} ({scheme}, tau={tau:.2f}) the state differs from the dense propagator by {err:.2e} (allowed {bound:.1e})", {"call": ci, "err": err})
            return out
        # bond limit and sector
        lim = int(max(sys_.caps)) ** (2 if form == "mpdm" else 1)
        if max(new.bond_dims) > lim:
            V(f"{pid}:bond-limit:{scheme}", f"bond dimensions {list(new.bond_dims)} exceed the configured limit {lim}", {"call": ci})
        leak = np.linalg.norm(gv[~sys_.mask]) if form == "mps" else np.linalg.norm(gv[~sys_.mask, :])
        if leak > 1e-8 * (np.linalg.norm(gv) + 1e-300):
            V(f"C06:evolve-sector-leak:{scheme}", f"after evolve {leak:.2e} of the amplitude lies outside the sector", {"call": ci})
        cur = new
    # ---- extra probes on single-call, non-adaptive histories
    if len(calls) == 1:
        scheme = calls[0]["scheme"]
        tau = calls[0]["q"] * TAU
        dt = -1j * tau if imag else tau
        psi = generic_state(sys_, (seed, "evolve", idx), form, c["gauge"], cplx=(idx % 2 == 1))
        r1 = evolve_once(sys_, psi, scheme, c, dt, td)
        # second call on the SAME object with the configuration it now carries (a caller re-using its initial state)
        r2 = evolve_once(sys_, psi, scheme, c, dt, td, keep_config=True)
        d12 = np.linalg.norm(st.dense(r1) - st.dense(r2)) / (np.linalg.norm(st.dense(r1)) + 1e-300)
        if d12 > 1e-7:
            V(f"{pid}:repeat:{scheme}", f"evolving the SAME input object twice gives results that differ by {d12:.2e}")
        p = scheme_order(scheme, c)
        if p is not None and not c["adaptive"] and not td:
            # observed order from the same total time in 1, 2 and 4 equal steps.  A single halving can be anomalous (regularised
            # schemes after the state has changed, pre-asymptotic step sizes: e.g. 4.4e-3, 2.8e-2, 4.8e-4, 1.3e-4 for 1, 2, 4, 8
            # steps of second-order CMF in imaginary time), so the BEST pairwise estimate must reach the advertised order
            refT = ref
            errs = {1: out["meas"][-1]["err"]}
            for nsub in (2, 4):
                h = psi
                for _ in range(nsub):
                    h = evolve_once(sys_, h, scheme, c, dt / nsub, td)
                g = st.dense(h)
                g = g.reshape(-1) if form == "mps" else g
                errs[nsub] = float(np.linalg.norm(g / np.linalg.norm(g) - refT / np.linalg.norm(refT)))
            e_full, e_half = errs[1], errs[2]
            floor = 2e-6 if scheme == "cmf" else 1e-9
            est = [np.log(max(errs[i], floor) / max(errs[j], floor)) / np.log(j / i) for i, j in ((1, 2), (2, 4), (1, 4))]
            out["meas"].append({"scheme": scheme, "p": p, "tau": tau, "ratio": e_half / (e_full + 1e-300), "e_full": e_full, "e_half": e_half, "e_quarter": errs[4],
                                "order_estimate": float(max(est)), "cmf": c["cmf"], "rk": c["rk"], "imag": imag})
            if e_full > 50 * floor and min(errs[2], errs[4]) > floor and max(est) < p - 0.7:
                V(f"{pid}:order:{scheme}" + (f":{c['rk']}" if scheme == "pc_rk" else "") + (f":{c['cmf']}" if scheme == "cmf" else ""),
                  f"errors {errs[1]:.2e}, {errs[2]:.2e}, {errs[4]:.2e} for 1, 2, 4 steps over the same time: best observed order {max(est):.2f}, advertised {p}")
        if scheme in ("ps", "ps2", "cmf") and not c["adaptive"]:
            other = dict(c, solver=("RK45" if c["solver"] == "krylov" else "krylov"))
            ro = evolve_once(sys_, psi, scheme, other, dt, td)
            ds = np.linalg.norm(st.dense(ro) - st.dense(r1)) / (np.linalg.norm(st.dense(r1)) + 1e-300)
            out["meas"].append({"scheme": scheme, "solver_diff": float(ds), "tau": tau, "cmf": c["cmf"], "imag": imag})
            if ds > (5e-5 if scheme == "cmf" else 1e-6):
                V(f"{pid}:solver-dependence:{scheme}" + (f":{c['cmf']}" if scheme == "cmf" else ""),
                  f"the result depends on the local integrator: krylov vs RK45 differ by {ds:.2e} at tau={tau:.2f}")
    return out


def error_bound(scheme, c, tau_total, td, form, full_bond, ncalls=1):
    """allowed relative error of ONE call over tau_total (||H|| = 1); None = no accuracy claim (bond not sufficient).
    Calibrated on the unchanged tree (evidence key `measured`) with a margin of at least 10x."""
    p = scheme_order(scheme, c)
    adaptive = bool(c["adaptive"]) and scheme == c["scheme"]
    if p is None:
        if scheme in ("ps", "vmf", "mu_vmf") and not full_bond:
            return None
        if scheme == "mu_vmf" and form == "mpdm":
            base = 2e-4            # regularisation of tiny Schmidt values of the vectorised density operator
        elif scheme in ("vmf", "mu_vmf"):
            base = 1e-7
        else:
            base = 1e-7 if c["solver"] == "RK45" else 1e-8
        if adaptive:
            base *= 10
        return base * (10 if td else 1)
    if adaptive:
        return 3e-2 if scheme == "cmf" else 1e-5
    b = 1.5 * tau_total ** (p + 1)
    return max(b, 5e-6 if scheme == "cmf" else 1e-8)
