"""C06 — conserved quantum numbers are never violated.

 * QnLabels (TLA+): the label bookkeeping of move_qnidx / add / conj_trans with a ghost "true left charge" per bond
   index; LabelsValid is checked by TLC for every sector-consistent skeleton, every pair of centres.  The mirrors of
   the pinned add()/conj_trans() are kept as regression configs that MUST fail.
 * MpHeap replays (shared with C03): after every action every live object must advertise the right qntot, have no
   amplitude outside its sector, and carry bond labels that describe its non-zero blocks for the stored centre.
 * operator bond charges produced by the symbolic MPO construction are judged by TLC (SymbolicMpoTrace.LabelsOK).
"""
import json

from .. import tlc
from ..common import MachineryError
from . import c03, c01

LEVEL = "model_checking"
OWNED = ("C06",)


def run(ctx):
    cfg = tlc.make_cfg(constants=dict(N=3, FixAdd=True, FixConj=True), spec="Spec", invariants=["Inv"])
    r = tlc.run("QnLabels", cfg, vacuity=True, timeout=1200)
    ctx.add_tlc(r, "QnLabels N=3 (repaired add / conj_trans)")
    if r["violated"]:
        ctx.violation("C06:spec:QnLabels", "QnLabels violates LabelsValid", {"tlc": r.get("error_text", "")[:3000]})
    for fa, fc, name in ((False, True, "pinned add"), (True, False, "pinned conj_trans")):
        cfg = tlc.make_cfg(constants=dict(N=3, FixAdd=fa, FixConj=fc), spec="Spec", invariants=["Inv"])
        r = tlc.run("QnLabels", cfg, timeout=1200, expect_violation=True)
        ctx.add_tlc(r, f"QnLabels regression ({name}, must fail)")
        if not r["violated"]:
            raise MachineryError(f"regression config '{name}' no longer violates LabelsValid: invariant vacuous?")
    c03.run(ctx, owned=OWNED, extra="c06")
    from . import c11
    c11.run(ctx, owned=OWNED)
    # ---- bond charges of constructed operators (code -> spec)
    cases = c01.emit_cases(ctx, "quick")
    flat = c01.replay_all(ctx, cases, sample=600 if ctx.tier == "quick" else 4000)
    traces = [t for _, r in flat for t in r["traces"] if t["uniform"]]
    if not traces:
        raise MachineryError("no charge-uniform operator exported")
    verdicts = c01.judge_traces(ctx, traces)
    byid = {t["id"]: t for t in traces}
    for tid, v in verdicts.items():
        ctx.traces(1)
        ctx.case(fingerprint="mpoqn" + tid, nontrivial=True)
        if not v["labels"]:
            ctx.violation(f"C06:mpo-bond-charges:{tid.split('/')[2]}",
                          f"TLC: bond charge labels of the constructed operator {tid} do not equal the charge of the partial operators", byid[tid])
    ctx.sample({"operator_labels_judged_by_TLC": traces[0]["id"], "qn": traces[0]["qn"]})
