"""C20 — bipartite vertex cover valid and minimum; operator bonds minimal.

1. TLC: Bipartite (new_konig loop) exhaustively for every graph on 3x3 (and unbalanced 2x4, 4x2) vertices,
   every maximum matching, every pop order: in-code asserts never fire, result is a cover of size = maximum
   matching = minimum cover, loop terminates.
2. spec -> code: TLC enumerates every graph of the scope with its brute-force minimum cover size; both real
   algorithms are run on each (any adjacency-list order): valid cover, size = spec's.
3. code -> spec: every (graph, result) pair recorded at real bipartite_vertex_cover calls while TLC-enumerated
   term tables are turned into Mpo objects is judged by TLC (BipartiteTrace); Mpo.bond_dims at every cut is
   compared with the spec-computed minimum cover of the raw prefix/suffix incidence matrix (SymbolicMpo.RawConj
   is a TLC-checked invariant of the design model) and with the number of distinct left/right partial terms.
"""
import json
import os
import tempfile

from .. import tlc
from ..common import pmap, MachineryError, rng_for
from . import c01

LEVEL = "model_checking"


def design(ctx, tier):
    sizes = [(3, 3), (2, 4), (4, 2)] if tier == "quick" else [(3, 3), (2, 4), (4, 2), (3, 4), (4, 3)]
    for nu, nv in sizes:
        cfg = tlc.make_cfg(constants=dict(NU=nu, NV=nv), spec="Spec", invariants=["AssertsHold", "Koenig"],
                           properties=["NoRevisit", "Terminates"])
        r = tlc.run("Bipartite", cfg, vacuity=True, timeout=3000)
        ctx.add_tlc(r, f"Bipartite {nu}x{nv} all graphs x all maximum matchings x all pop orders")
        if r["violated"]:
            ctx.violation(f"C20:spec:{r['violated']}", f"Bipartite design model violates {r['violated']}", {"tlc": r.get("error_text", "")[:3000]})
        cov = r.get("coverage_summary") or {}
        if cov.get("Pop", {}).get("taken", 0) == 0:
            raise MachineryError("vacuous: Pop never taken")


def emit_graphs(ctx, tier):
    sizes = [(1, 1), (1, 3), (3, 1), (2, 2), (3, 3), (2, 4), (4, 2), (3, 4)] if tier == "quick" else \
            [(1, 1), (1, 3), (3, 1), (2, 2), (3, 3), (2, 4), (4, 2), (3, 4), (4, 3), (4, 4), (2, 6), (5, 3)]
    graphs = []
    for nu, nv in sizes:
        cfg = tlc.make_cfg(constants=dict(NU=nu, NV=nv), init="EmitInit", next_="EmitNext", invariants=["EmitGraph"])
        r = tlc.run("BipartiteEmit", cfg, mode="emit", timeout=3000)
        ctx.add_tlc(r, f"emit graphs {nu}x{nv}")
        if len(r["emitted"]) != 2 ** (nu * nv):
            raise MachineryError(f"expected {2 ** (nu * nv)} graphs, TLC emitted {len(r['emitted'])}")
        graphs.extend(r["emitted"])
    return graphs


def _run_graphs(args):
    from ..common import bootstrap
    bootstrap()
    from renormalizer.lib.bipartite_matching.bipartite_matching import bipartite_vertex_cover
    import numpy as np
    chunk, seed = args
    out = []
    for gi, g in chunk:
        nu, nv = g["nu"], g["nv"]
        rng = rng_for(seed, "graph", gi)
        adj = [[] for _ in range(nu)]
        for u, v in g["edges"]:
            adj[u - 1].append(v - 1)
        variants = [adj, [list(reversed(a)) for a in adj]]
        sh = [list(rng.permutation(a)) for a in adj]
        variants.append([[int(x) for x in a] for a in sh])
        for vi, big in enumerate(variants):
            for algo in ("Hopcroft-Karp", "Hungarian"):
                # the symbolic MPO code passes numpy index arrays; plain lists are the documented form
                arg = [np.array(a, dtype=np.int32) for a in big] if vi == 1 else big
                try:
                    cu, cv = bipartite_vertex_cover(arg, algo=algo)
                except Exception as e:
                    cls = "no-edges" if not g["edges"] else "general"
                    out.append(("viol", f"C20:cover-raises:{cls}:{algo}", f"bipartite_vertex_cover raised {type(e).__name__}: {e}",
                                {"graph": g, "adjacency": [[int(x) for x in a] for a in big], "algo": algo}))
                    continue
                su = [i for i, b in enumerate(cu) if b]
                sv = [i for i, b in enumerate(cv) if b]
                ok_range = all(i < nu for i in su) and all(i < nv for i in sv)
                valid = all(((u - 1) in su) or ((v - 1) in sv) for u, v in g["edges"])
                size = len(su) + len(sv)
                if not (ok_range and valid and size == g["mincover"]):
                    out.append(("viol", f"C20:cover-wrong:{algo}:" + ("not-a-cover" if not valid else "not-minimum" if ok_range else "out-of-range"),
                                f"cover U={su} V={sv} of graph {g['edges']} ({nu}x{nv}): valid={valid} size={size} minimum={g['mincover']}",
                                {"graph": g, "adjacency": [[int(x) for x in a] for a in big], "algo": algo}))
                out.append(("ok", gi))
    return out


def judge_covers(ctx, recs):
    verdicts = []
    B = 5000
    # binding demonstration: a copy of a recorded call with one cover vertex of an edge dropped must be judged invalid
    import copy
    donor = next((r_ for r_ in recs if r_["edges"]), None)
    if donor is not None:
        bad = copy.deepcopy(donor)
        bad["id"] = "corrupted-copy"
        u, v = bad["edges"][0]
        bad["cu"] = [x for x in bad["cu"] if x != u]
        bad["cv"] = [x for x in bad["cv"] if x != v]
        recs = list(recs) + [bad]
    for k in range(0, len(recs), B):
        batch = recs[k:k + B]
        with tempfile.NamedTemporaryFile("w", suffix=".json", delete=False) as fh:
            json.dump(batch, fh)
            path = fh.name
        try:
            cfg = tlc.make_cfg(init="Init", next_="Next", invariants=["Verdict"])
            r = tlc.run("BipartiteTrace", cfg, mode="trace", env={"TRACE_FILE": path}, timeout=3000)
        finally:
            os.unlink(path)
        ctx.add_tlc(r, "BipartiteTrace batch")
        if len(r["verdicts"]) != len(batch):
            raise MachineryError("verdict count mismatch in BipartiteTrace")
        verdicts.extend(r["verdicts"])
    if donor is not None:
        cv = [v for v in verdicts if v["id"] == "corrupted-copy"]
        if len(cv) != 1 or cv[0]["valid"]:
            raise MachineryError("binding demonstration failed: BipartiteTrace accepted a cover that leaves an edge uncovered")
        verdicts = [v for v in verdicts if v["id"] != "corrupted-copy"]
        ctx.notes["binding_demonstration"] = "corrupted copy (an edge left uncovered) rejected by BipartiteTrace"
    return verdicts


def run(ctx):
    tier = ctx.tier
    design(ctx, tier)
    graphs = emit_graphs(ctx, tier)
    items = list(enumerate(graphs))
    n = 64
    ch = [items[i::n] for i in range(n)]
    res = pmap(_run_graphs, [(c, ctx.seed) for c in ch if c], chunksize=1)
    ncalls = 0
    for st, r in res:
        if st != "ok":
            raise MachineryError("graph worker failed: " + r)
        for rec in r:
            if rec[0] == "viol":
                ctx.violation(rec[1], rec[2], rec[3])
            else:
                ncalls += 1
    for gi, g in items:
        ctx.case(fingerprint=("g", g["nu"], g["nv"], json.dumps(g["edges"])), nontrivial=len(g["edges"]) >= 2)
    ctx.sample({"graph": graphs[len(graphs) // 3]})
    ctx.notes["cover_calls_on_enumerated_graphs"] = ncalls

    # ---- bond-dimension consequence and recorded covers, on TLC-enumerated term tables
    cases = c01.emit_cases(ctx, tier)
    flat = c01.replay_all(ctx, cases, want_covers=True, sample=1200 if tier == "quick" else 12000)
    seen = {}
    bonds = 0
    for idx, r in flat:
        ctx.case(fingerprint=("t", json.dumps(cases[idx]["input"])), nontrivial=r["nontrivial"])
        bonds += r["bonds_checked"]
        for key, what, detail in r["viol"]:
            if key.startswith("C20"):
                ctx.violation(key, what, detail)
        for c in r["covers"]:
            k = json.dumps(c, sort_keys=True)
            if k not in seen:
                seen[k] = c
    recs = []
    for i, c in enumerate(seen.values()):
        nu = len(c["graph"])
        nv = max([max(a) for a in c["graph"] if a] + [-1]) + 1
        nv = max(nv, len(c["v"]))
        if nu > 7 or nv > 7:
            continue
        recs.append({"id": i, "nu": nu, "nv": nv, "algo": c["algo"],
                     "edges": [[u + 1, v + 1] for u, a in enumerate(c["graph"]) for v in a],
                     "cu": [k + 1 for k, b in enumerate(c["u"]) if b], "cv": [k + 1 for k, b in enumerate(c["v"]) if b]})
    if not recs:
        raise MachineryError("no vertex-cover calls recorded during MPO construction")
    verdicts = judge_covers(ctx, recs)
    byid = {r["id"]: r for r in recs}
    for v in verdicts:
        ctx.traces(1)
        if not (v["valid"] and v["inrange"] and v["size"] == v["minimum"]):
            ctx.violation(f"C20:recorded-cover:{byid[v['id']]['algo']}",
                          f"TLC: cover recorded during MPO construction is not a minimum vertex cover: {v}", byid[v["id"]])
    ctx.sample({"recorded_cover_judged_by_TLC": recs[len(recs) // 2]})
    ctx.notes["mpo_bond_vectors_compared"] = bonds
    ctx.notes["distinct_recorded_cover_calls"] = len(recs)
    ctx.cov["rule"] = ("(g) every bipartite graph on the listed vertex-count pairs, enumerated by TLC with its brute-force minimum cover, "
                       "run through both algorithms with three adjacency orders; non-trivial = >= 2 edges.  (t) TLC-enumerated term tables "
                       "built by the real Mpo code: bond_dims vs spec minimum cover per cut, every recorded cover call judged by TLC; "
                       "non-trivial = >= 2 distinct words.  distinct = distinct graph / distinct raw table")
    ctx.assumptions += ["graphs up to 4x4 (5x3, 2x6) exhaustively; larger graphs only as they arise from term tables",
                        "a boolean table shorter than the vertex count is read as 'not selected' for the missing (isolated, trailing) vertices"]
