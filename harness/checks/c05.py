"""C05 — truncation respects the bond limit and the discarded-weight error bound.

 A. Truncation.tla: the kept-count rule of compute_m_trunc and the bond-index convention of compress(), checked by
    TLC for every integer spectrum (length <= 3-4, with zeros and degeneracies) x criterion x threshold class x
    per-bond limits x sweep direction x site.  The pinned rule (no floor) is a must-fail regression config.
 B. spec -> code: every enumerated case is evaluated by the real CompressConfig.compute_m_trunc.
 C. pair-product states: site i carries two sub-indices entangled with the neighbours with PRESCRIBED spectra, so the
    Schmidt spectrum at each bond is exactly an enumerated one and the spec predicts kept counts and the exact error.
 D. random states in symmetry sectors, chains and trees: bond limits (global and per-bond), norm non-increase,
    max_b tail_b <= ||psi - psi_c||^2 <= sum_b tail_b with tails from independent dense SVDs of the ORIGINAL state
    at the output ranks, lossless compress(ret_s=True) spectra equal the dense ones.
 E. code -> spec: compute_m_trunc calls recorded during C and D are re-evaluated by TLC (TruncationTrace).
"""
import json
import os
import tempfile

import numpy as np

from .. import tlc
from ..common import pmap, MachineryError, bootstrap, rng_for, reseed_global

LEVEL = "model_checking"
THR = {(1, 10): 0.1, (1, 2): 0.5, (9, 10): 0.9, (1, 100): 0.01, (3, 10): 0.3, (7, 10): 0.7, (99, 100): 0.99}


def _crit(name):
    from renormalizer.utils import CompressCriteria
    return getattr(CompressCriteria, name)


class Recorder:
    def __init__(self):
        self.calls = []

    def __enter__(self):
        from renormalizer.utils.configs import CompressConfig
        self.cls = CompressConfig
        self.orig = CompressConfig.compute_m_trunc
        rec = self

        def wrapped(cfg, *a, **k):
            r = rec.orig(cfg, *a, **k)
            try:          # the recorder never interferes; a call it cannot interpret is simply not recorded
                sigma = a[0] if a else k["sigma"]
                idx = a[1] if len(a) > 1 else k["idx"]
                left = a[2] if len(a) > 2 else k["left"]
                md = None
                if cfg.max_dims is not None:
                    b = idx + 1 if left else idx
                    md = int(cfg.max_dims[b]) if 0 <= b < len(cfg.max_dims) else None
                rec.calls.append({"sigma": np.asarray(sigma, dtype=float).copy(), "crit": cfg.criteria.name, "thr": float(cfg.threshold),
                                  "md": md, "got": int(r)})
            except Exception:
                pass
            return r
        CompressConfig.compute_m_trunc = wrapped
        return self

    def __exit__(self, *a):
        self.cls.compute_m_trunc = self.orig


def _trace_records(calls, tag):
    out = []
    for ci, c in enumerate(calls):
        thr = [k for k, v in THR.items() if abs(v - c["thr"]) < 1e-12]
        if not thr or (c["crit"] != "threshold" and c["md"] is None):
            continue
        s = c["sigma"]
        if len(s) == 0 or len(s) > 12 or s.max() <= 0:
            continue
        s2 = (s / s.max()) ** 2
        tot = s2.sum()
        # the spectrum is quantised to 1e-4 for TLC's integer arithmetic: skip records where a value sits within 5e-4 of
        # the threshold boundary (quantisation could flip the comparison); they are counted by the dense checks instead
        if np.any(np.abs(s2 / tot - c["thr"] ** 2) < 5e-4):
            continue
        q = np.round(s2 * 10000).astype(int)
        out.append({"id": f"{tag}/{ci}", "s2": [int(x) for x in q], "crit": c["crit"], "thr": [thr[0][0], thr[0][1]],
                    "md": int(c["md"] or 0), "len": int(len(s)), "got": c["got"]})
    return out


def _fn_cases(args):
    bootstrap()
    from renormalizer.utils import CompressConfig
    cases = args
    viol = []
    for c in cases:
        cfg = CompressConfig(_crit(c["crit"]), threshold=THR[tuple(c["thr"])], max_bonddim=9)
        cfg.max_dims = np.array(c["maxdims"], dtype=int)
        try:
            got = cfg.compute_m_trunc(np.array(c["s"], dtype=float), c["idx"], c["left"])
        except Exception as e:
            viol.append((f"C05:kept-count-raises:{c['crit']}", f"compute_m_trunc raised {type(e).__name__}: {e}", c))
            continue
        if int(got) != c["kept"]:
            cls = "zero-kept" if int(got) == 0 else "mismatch"
            viol.append((f"C05:kept-count:{c['crit']}:{cls}", f"compute_m_trunc keeps {got} of {c['s']} (threshold {c['thr']}, max_dims {c['maxdims']}, "
                                                               f"idx {c['idx']}, left {c['left']}); the specification keeps {c['kept']}", c))
    return viol


def _pair_product(args):
    bootstrap()
    from renormalizer.model import Model, basis as ba
    from renormalizer.mps import Mps
    from renormalizer.utils import CompressConfig
    from .. import states as st
    jobs, kept_table, seed = args
    out = {"cases": [], "viol": [], "trace": []}
    for (s1, s2, crit, thr, M1, M2, direction) in jobs:
        a, b = len(s1), len(s2)
        dims = [a, a * b, b]
        model = Model([ba.BasisSHO(f"v{i}", 1.0, d) for i, d in enumerate(dims)], [])
        psi = np.zeros(dims)
        for i in range(a):
            for j in range(b):
                psi[i, i * b + j, j] = s1[i] * s2[j]
        detail = {"s1": s1, "s2": s2, "crit": crit, "thr": thr, "M": [M1, M2], "direction": direction}
        try:
            mps = Mps.from_dense(model, psi.reshape(-1))
            mps.qnidx, mps.to_right, mps.qntot = 2, False, np.array([0])
            if direction == "right":
                mps.canonicalise()       # now right-canonical, sweeping to the right
            else:
                mps.canonicalise().canonicalise()
            ref = st.dense(mps)
            cfg = CompressConfig(_crit(crit), threshold=THR[tuple(thr)], max_bonddim=9)
            cfg.max_dims = np.array([1, M1, M2, 1])
            mps.compress_config = cfg
            with Recorder() as rec:
                if crit == "fixed" and (a + b + M1 + M2) % 2 == 0:
                    # the same per-bond limits passed as a temporary list (mp.py: list branch of temp_m_trunc)
                    detail["temp_m_trunc_list"] = True
                    mps.compress(temp_m_trunc=[1, M1, M2, 1])
                else:
                    mps.compress()
            out["trace"] += _trace_records(rec.calls, f"pp/{s1}/{s2}/{crit}/{thr}/{M1}/{M2}/{direction}")
        except Exception as e:
            out["viol"].append((f"C05:pair-product-raises:{crit}", f"{type(e).__name__}: {e}", detail))
            continue
        out["cases"].append(json.dumps(detail))
        # expected kept counts from the specification's table; the order of truncation depends on the direction but the
        # spectra of a pair-product state at different bonds are independent
        left = direction == "right"
        k1 = kept_table.get((tuple(s1), crit, tuple(thr), M1))
        k2 = kept_table.get((tuple(s2), crit, tuple(thr), M2))
        bd = list(mps.bond_dims)
        if k1 is None or k2 is None:
            continue
        # an exactly degenerate cut keeps one of the equal values: the count is still the spec's
        if bd != [1, k1, k2, 1]:
            out["viol"].append((f"C05:pair-product:bond-dims:{crit}", f"bond dims {bd} after compress, the specification keeps [{k1},{k2}] of spectra {s1}, {s2}", detail))
            continue
        n1k, n2k = sum(x * x for x in sorted(s1, reverse=True)[:k1]), sum(x * x for x in sorted(s2, reverse=True)[:k2])
        n1, n2 = sum(x * x for x in s1), sum(x * x for x in s2)
        got = st.dense(mps)
        err2 = float(np.linalg.norm(got - ref) ** 2)
        exact = n1 * n2 - n1k * n2k
        if abs(err2 - exact) > 1e-9 * (n1 * n2 + 1):
            out["viol"].append((f"C05:pair-product:error:{crit}", f"||psi - psi_c||^2 = {err2} but the discarded weight is exactly {exact}", detail))
        if np.linalg.norm(got) > np.linalg.norm(ref) * (1 + 1e-12):
            out["viol"].append((f"C05:pair-product:norm-grew:{crit}", "norm after truncation exceeds the original", detail))
    return out


def _tails(psi, dims, ranks):
    """discarded weight of the ORIGINAL dense state at every chain cut for the given output ranks."""
    t = []
    for b in range(1, len(dims)):
        m = psi.reshape(int(np.prod(dims[:b])), -1)
        sv = np.linalg.svd(m, compute_uv=False)
        t.append(float(np.sum(sv[ranks[b]:] ** 2)))
    return t


def _random_chain(args):
    bootstrap()
    from renormalizer.utils import CompressConfig
    from .. import states as st
    seed, k, tier = args
    out = {"cases": [], "viol": [], "trace": []}
    rng = rng_for(seed, "c05-chain", k)
    fams = ["elec", "eph", "spin", "qn2"]
    fam = fams[k % 4]
    N = 4 + (k // 4) % 2
    model, basis, alphas = st.chain_model(fam, N, variant=k % 3)
    ne = st.n_electron_sites(basis)
    qntot = st.best_sector(basis)
    dims = [b.nbas for b in basis]
    for rep in range(2 if tier == "quick" else 6):
        for kind in ("mps", "mpdm"):
            for crit, thr, M in (("fixed", (1, 10), 2), ("fixed", (1, 10), [1, 2, 3, 2, 1, 1][: N + 1]), ("threshold", (1, 10), None), ("threshold", (1, 2), None),
                                 ("threshold", (9, 10), None), ("both", (1, 100), 3), ("both", (3, 10), [1, 3, 2, 3, 1, 1][: N + 1]), ("fixed", (1, 10), 1)):
                for direction in ("left", "right"):
                    detail = {"family": fam, "N": N, "kind": kind, "crit": crit, "thr": thr, "M": M, "direction": direction, "k": k, "rep": rep}
                    try:
                        mps = st.random_mps(model, qntot, 6, (seed, "c05", k, rep), cplx=(rep % 2 == 1))
                        # entangle beyond a product-like random state: add a second random state
                        m2 = st.random_mps(model, qntot, 6, (seed, "c05b", k, rep))
                        mps = mps.add(m2.scale(0.6))
                        if kind == "mpdm":
                            from renormalizer.mps import MpDm
                            base = st.random_mps(model, qntot, 3, (seed, "c05", k, rep))
                            mps = MpDm.from_mps(base).add(MpDm.from_mps(st.random_mps(model, qntot, 3, (seed, "c05c", k, rep))).scale(0.5))
                    except FloatingPointError:
                        continue          # Mps.random cannot populate this sector at this bond dimension: not a case
                    try:
                        mps.ensure_left_canonical()
                        if direction == "right":
                            mps.canonicalise()
                        if np.linalg.norm(st.dense(mps)) < 1e-12:
                            continue
                        ref = st.dense(mps)
                        bd0 = list(mps.bond_dims)
                        cfg = CompressConfig(_crit(crit), threshold=THR[thr], max_bonddim=M if isinstance(M, int) else 32)
                        if isinstance(M, list):
                            cfg.max_dims = np.array(M)
                        mps.compress_config = cfg
                        with Recorder() as rec:
                            if crit == "fixed" and isinstance(M, list) and rep % 2 == 0:
                                detail["temp_m_trunc_list"] = True
                                mps.compress(temp_m_trunc=list(M))
                            else:
                                mps.compress()
                        out["trace"] += _trace_records(rec.calls, f"ch/{k}/{rep}/{kind}/{crit}/{thr}/{M}/{direction}")
                    except Exception as e:
                        cls = "flat-spectrum-large-threshold" if (crit == "threshold" and thr == (9, 10)) else "general"
                        out["viol"].append((f"C05:chain-raises:{crit}:{cls}", f"compress raised {type(e).__name__}: {e}", detail))
                        continue
                    out["cases"].append(json.dumps(detail))
                    got = st.dense(mps)
                    bd = list(mps.bond_dims)
                    if crit in ("fixed", "both"):
                        lim = M if isinstance(M, list) else [M] * (N + 1)
                        if any(bd[b] > lim[b] for b in range(1, N)):
                            out["viol"].append((f"C05:chain:bond-limit:{crit}", f"bond dims {bd} exceed the configured limits {lim}", detail))
                            continue
                    if np.linalg.norm(got) > np.linalg.norm(ref) * (1 + 1e-10):
                        out["viol"].append((f"C05:chain:norm-grew:{crit}", "norm after truncation exceeds the original", detail))
                    pd = dims if kind == "mps" else [d * d for d in dims]
                    tails = _tails(ref.reshape(pd) if kind == "mps" else _mpdm_as_vector(ref, dims), pd, bd)
                    err2 = float(np.linalg.norm(got - ref) ** 2)
                    scale = float(np.linalg.norm(ref) ** 2)
                    if err2 > sum(tails) + 1e-10 * scale or err2 < max(tails) - 1e-10 * scale:
                        out["viol"].append((f"C05:chain:error-bound:{crit}", f"||psi-psi_c||^2 = {err2:.6e} outside [max tail, sum of tails] = [{max(tails):.6e}, {sum(tails):.6e}]", detail))
        # lossless compress returns the dense Schmidt spectra
        try:
            mps = st.random_mps(model, qntot, 5, (seed, "c05-s", k, rep)).add(st.random_mps(model, qntot, 5, (seed, "c05-t", k, rep)))
            mps.ensure_left_canonical()
            ref = st.dense(mps)
            mps, s_arr = mps.compress(temp_m_trunc=10 ** 6, ret_s=True)
            out["cases"].append(f"rets/{k}/{rep}")
            # sweep to the left: s_arr[0] belongs to the last bond
            for row, b in zip(s_arr, range(N - 1, 0, -1)):
                sv = np.linalg.svd(ref.reshape(int(np.prod(dims[:b])), -1), compute_uv=False)
                m = min(len(sv), len(row))
                a_, b_ = np.sort(row)[::-1][:m], sv[:m]
                if np.linalg.norm(a_ - b_) > 1e-9 * (np.linalg.norm(b_) + 1) or np.any(np.sort(row)[::-1][m:] > 1e-9) or np.any(sv[m:] > 1e-9):
                    out["viol"].append(("C05:chain:ret_s", f"singular values returned by compress(ret_s=True) at bond {b} differ from the dense Schmidt spectrum", {"k": k, "rep": rep, "bond": b}))
                    break
        except Exception as e:
            out["viol"].append(("C05:chain:ret_s-raises", f"{type(e).__name__}: {e}", {"k": k, "rep": rep}))
    return out


def _mpdm_as_vector(mat, dims):
    """dense operator (D x D) -> tensor with one combined (up,down) index per site, in site order."""
    n = len(dims)
    t = mat.reshape(dims + dims)
    perm = [x for i in range(n) for x in (i, n + i)]
    return t.transpose(perm).reshape([d * d for d in dims])


def _random_tree(args):
    bootstrap()
    from renormalizer.utils import CompressConfig
    from .. import trees
    seed, k, tier = args
    out = {"cases": [], "viol": [], "trace": []}
    try:
        import renormalizer.tn  # noqa
    except Exception as e:
        raise RuntimeError(f"renormalizer.tn not importable: {e}")
    for rep in range(2 if tier == "quick" else 5):
        tcase = trees.random_tree_case(seed, k, rep)
        nn = len(tcase["parents"])
        lrng = rng_for(seed, "c05-tree-limits", k, rep)
        per_node = [int(x) for x in lrng.integers(1, 4, size=nn)]           # entry i = limit of the bond node i -> parent
        for crit, thr, M in (("fixed", (1, 10), 2), ("threshold", (1, 10), None), ("both", (1, 100), 3), ("fixed", (1, 10), 1), ("threshold", (1, 2), None),
                             ("fixed", (1, 10), ("temp-list", per_node)), ("fixed", (1, 10), ("temp-array", per_node)), ("fixed", (1, 10), ("max_dims", per_node)),
                             ("both", (1, 100), ("max_dims", per_node))):
            detail = {"tree": tcase["desc"], "crit": crit, "thr": thr, "M": M, "k": k, "rep": rep}
            try:
                t = trees.random_ttns(tcase, 5, (seed, "c05-tree", k, rep))
                t2 = trees.random_ttns(tcase, 5, (seed, "c05-tree2", k, rep))
                t = t.add(t2.scale(0.7))
                t.canonicalise()
                ref = trees.dense(t, tcase)
                if np.linalg.norm(ref) < 1e-12:
                    continue
                lims = None
                if isinstance(M, tuple):
                    how, lims = M
                    cfg = CompressConfig(_crit(crit), threshold=THR[thr], max_bonddim=32)
                    if how == "max_dims":
                        cfg.set_bonddim(nn + 1)
                        cfg.max_dims[:nn] = np.array(lims, dtype=int)
                    t.compress_config = cfg
                    if how == "temp-list":
                        t.compress(temp_m_trunc=list(lims))
                    elif how == "temp-array":
                        t.compress(temp_m_trunc=np.array(lims))
                    else:
                        t.compress()
                else:
                    cfg = CompressConfig(_crit(crit), threshold=THR[thr], max_bonddim=M if M else 32)
                    t.compress_config = cfg
                    with Recorder() as rec:
                        t.compress()
                    out["trace"] += _trace_records(rec.calls, f"tr/{k}/{rep}/{crit}/{thr}/{M}")
            except Exception as e:
                cls = "flat-spectrum-large-threshold" if (crit == "threshold" and thr in ((9, 10), (1, 2))) else "general"
                out["viol"].append((f"C05:tree-raises:{crit}:{cls}", f"TTNS.compress raised {type(e).__name__}: {e}", detail))
                continue
            out["cases"].append(json.dumps(detail))
            got = trees.dense(t, tcase)
            bd = trees.bond_dims(t)
            if lims is not None:
                if any(b > lims[i] for i, b in bd.items()):
                    out["viol"].append((f"C05:tree:bond-limit:per-node:{M[0]}", f"tree bond dims {bd} exceed the per-node limits {lims}", detail))
                    continue
            elif M and any(b > M for b in bd.values()):
                out["viol"].append((f"C05:tree:bond-limit:{crit}", f"tree bond dims {bd} exceed the limit {M}", detail))
                continue
            if np.linalg.norm(got) > np.linalg.norm(ref) * (1 + 1e-10):
                out["viol"].append((f"C05:tree:norm-grew:{crit}", "norm after truncation exceeds the original", detail))
            tails = trees.tails(ref, tcase, t, bd)
            err2 = float(np.linalg.norm(got - ref) ** 2)
            scale = float(np.linalg.norm(ref) ** 2)
            if err2 > sum(tails) + 1e-10 * scale or (tails and err2 < max(tails) - 1e-10 * scale):
                out["viol"].append((f"C05:tree:error-bound:{crit}", f"||psi-psi_c||^2 = {err2:.6e} outside [{max(tails):.6e}, {sum(tails):.6e}]", detail))
    return out


def run(ctx):
    tier = ctx.tier
    small = dict(MaxLen=3, MaxVal=3, MaxM=3)
    # ---- A
    cfg = tlc.make_cfg(constants=dict(small, RepairedFloor=True), subst={"Thresholds": "ThrAll"}, spec="Spec",
                       invariants=["AtLeastOne", "NeverMoreThanAvailable", "WithinLimit", "BondIsTheCutBond", "BothIsMin", "PrefixRule", "Emit"])
    r = tlc.run("Truncation", cfg, mode="emit", timeout=3000)
    ctx.add_tlc(r, "Truncation all spectra len<=3 x criteria x thresholds x limits x direction x site")
    if r["violated"]:
        ctx.violation(f"C05:spec:{r['violated']}", "Truncation violates " + r["violated"], {"tlc": r.get("error_text", "")[:2000]})
    cases = r["emitted"]
    cfg = tlc.make_cfg(constants=dict(small, RepairedFloor=False), subst={"Thresholds": "ThrAll"}, spec="Spec", invariants=["AtLeastOne"])
    rr = tlc.run("Truncation", cfg, timeout=600, expect_violation=True)
    ctx.add_tlc(rr, "Truncation pinned rule without floor (must fail)")
    if rr["violated"] != "AtLeastOne":
        raise MachineryError("regression config: the rule without floor no longer violates AtLeastOne")
    if tier == "thorough":
        cfg = tlc.make_cfg(constants=dict(MaxLen=4, MaxVal=3, MaxM=4, RepairedFloor=True), subst={"Thresholds": "ThrFine"}, spec="Spec",
                           invariants=["AtLeastOne", "NeverMoreThanAvailable", "WithinLimit", "BondIsTheCutBond", "BothIsMin", "PrefixRule"])
        r2 = tlc.run("Truncation", cfg, timeout=3000)      # pure enumeration (Next == FALSE): no action coverage to demand
        ctx.add_tlc(r2, "Truncation len<=4, 7 thresholds, limits<=4")
    # ---- B
    n = 32
    res = pmap(_fn_cases, [cases[i::n] for i in range(n)], chunksize=1)
    for st_, v in res:
        if st_ != "ok":
            raise MachineryError("kept-count worker failed: " + v)
        for key, what, detail in v:
            ctx.violation(key, what, detail)
    for c in cases:
        ctx.case(fingerprint=("fn", json.dumps(c, sort_keys=True)), nontrivial=(len(c["s"]) >= 2))
    ctx.sample({"kept_count_case_from_TLC": cases[len(cases) // 2]})
    # ---- C: table spectrum -> kept for the bond between sites (idx, direction) with its own limit
    kept = {}
    for c in cases:
        b = c["idx"] + 1 if c["left"] else c["idx"]
        kept[(tuple(c["s"]), c["crit"], tuple(c["thr"]), c["maxdims"][b])] = c["kept"]
    spectra = sorted({tuple(c["s"]) for c in cases})
    jobs = []
    import random
    rnd = random.Random(ctx.seed)
    combos = [(s1, s2) for s1 in spectra for s2 in spectra if len(s1) * len(s2) <= 9]
    rnd.shuffle(combos)
    for s1, s2 in combos[: (120 if tier == "quick" else 600)]:
        for crit in ("threshold", "fixed", "both"):
            thr = rnd.choice([(1, 10), (1, 2), (9, 10)])
            M1, M2 = rnd.randint(1, 3), rnd.randint(1, 3)
            for direction in ("left", "right"):
                jobs.append((list(s1), list(s2), crit, list(thr), M1, M2, direction))
    res = pmap(_pair_product, [(jobs[i::32], kept, ctx.seed) for i in range(32) if jobs[i::32]], chunksize=1)
    traces = []
    for st_, o in res:
        if st_ != "ok":
            raise MachineryError("pair-product worker failed: " + o)
        for c in o["cases"]:
            ctx.case(fingerprint="pp" + c, nontrivial=True)
        for key, what, detail in o["viol"]:
            ctx.violation(key, what, detail)
        traces += o["trace"]
    # ---- D
    nk = 16 if tier == "quick" else 48
    res = pmap(_random_chain, [(ctx.seed, k, tier) for k in range(nk)], chunksize=1)
    res += pmap(_random_tree, [(ctx.seed, k, tier) for k in range(nk)], chunksize=1)
    for st_, o in res:
        if st_ != "ok":
            raise MachineryError("random-state worker failed: " + o)
        for c in o["cases"]:
            ctx.case(fingerprint="rnd" + c, nontrivial=True)
        for key, what, detail in o["viol"]:
            ctx.violation(key, what, detail)
        traces += o["trace"]
    # ---- E
    if not traces:
        raise MachineryError("no compute_m_trunc call was recorded")
    traces = traces[:20000]
    # binding demonstration: a copy of a recorded call with the kept count changed must be rejected
    bad = dict(traces[0], id="corrupted-copy", got=traces[0]["got"] + 1)
    traces = traces + [bad]
    with tempfile.NamedTemporaryFile("w", suffix=".json", delete=False) as fh:
        json.dump(traces, fh)
        path = fh.name
    try:
        cfg = tlc.make_cfg(init="Init", next_="Next", invariants=["Verdict"])
        rt = tlc.run("TruncationTrace", cfg, mode="trace", env={"TRACE_FILE": path}, timeout=3000)
    finally:
        os.unlink(path)
    ctx.add_tlc(rt, "TruncationTrace batch")
    if len(rt["verdicts"]) != len(traces):
        raise MachineryError("TruncationTrace verdict count mismatch")
    byid = {t["id"]: t for t in traces}
    cv = [v for v in rt["verdicts"] if v["id"] == "corrupted-copy"]
    if len(cv) != 1 or cv[0]["expected"] == cv[0]["got"]:
        raise MachineryError("binding demonstration failed: TruncationTrace accepted a recorded call with a changed kept count")
    ctx.notes["binding_demonstration"] = "corrupted copy (kept count + 1) rejected by TruncationTrace"
    for v in rt["verdicts"]:
        if v["id"] == "corrupted-copy":
            continue
        ctx.traces(1)
        if v["expected"] != v["got"]:
            t = byid[v["id"]]
            ctx.violation(f"C05:trace:kept-count:{t['crit']}", f"TLC: recorded compute_m_trunc call kept {v['got']}, the specification keeps {v['expected']}", t)
    ctx.sample({"recorded_call_judged_by_TLC": traces[len(traces) // 2]})
    ctx.cov["rule"] = ("fn: every (spectrum, criterion, threshold, limits, site, direction) tuple enumerated by TLC; pp: pair-product states with prescribed integer "
                       "spectra at both bonds x criteria x limits x sweep direction; rnd: random sector states (4 chain families incl. 2-component qn, Mps and MpDm, "
                       "real/complex; random trees with dummy / multi-basis nodes) x 8 truncation settings x direction; non-trivial = spectrum length >= 2; "
                       "distinct = distinct tuple")
    ctx.assumptions += ["error bounds use dense SVDs of the original state at the output ranks; slack 1e-10 relative"]
