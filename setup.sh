#!/bin/sh
# Offline setup: nothing to build (pure Python + TLA+). Verify the tools and parse every specification.
set -e
cd "$(dirname "$0")"
command -v java >/dev/null
test -f /opt/veriftools/tla/tla2tools.jar
test -x /venv/bin/python
/venv/bin/python -c "import numpy, scipy"
mkdir -p evidence out
fail=0
for f in spec/*.tla; do
  if ! (cd spec && java -cp /opt/veriftools/tla/tla2tools.jar:/opt/veriftools/tla/CommunityModules-deps.jar tla2sany.SANY "$(basename "$f")") >/tmp/verif-sany.$$ 2>&1; then
    echo "SANY failed on $f"; tail -20 /tmp/verif-sany.$$; fail=1
  fi
done
rm -f /tmp/verif-sany.$$
/venv/bin/python -m compileall -q harness >/dev/null
exit $fail
