"""C01 — automatic MPO construction is exact; adjacent-site swap keeps the operator.

1. TLC checks the design model SymbolicMpo exhaustively (loop invariant of the construction, final state,
   bond = minimum cover, swap = valid construction of the permuted terms).
2. TLC emits every term table of the scope; each is concretised on several model families and built with the
   three algorithms of the REAL code; Mpo.todense() is compared with the dense sum of Kronecker products
   (spec -> code), also after every sequence of <= 2 adjacent-site swaps.
3. The symbolic operators the real code produced (Mpo.symbolic_out_ops_list, graph algorithms, integer factors)
   are handed back to TLC, which expands their denotation with exact integer arithmetic (code -> spec).
"""
import json
import os
import tempfile

from .. import tlc
from ..common import pmap, MachineryError

LEVEL = "model_checking"

INVS = ["LoopInv", "FinalInv", "NonEmpty", "BondInv", "RawConj"]


def design_runs(ctx, tier):
    runs = []
    if tier == "quick":
        runs.append(("sets N=3 A=1 <=3 terms {1,2} swaps<=1", dict(N=3, A=1, MaxTerms=3, MaxList=3, Factors="{1, 2}", MaxSwaps=1), "InitSets", None))
        runs.append(("lists N=2 A=1 <=3 entries {1,-1,2}", dict(N=2, A=1, MaxTerms=3, MaxList=3, MaxSwaps=1), "InitLists", {"Factors": "SignedFactors"}))
    else:
        runs.append(("sets N=3 A=2 <=3 terms {1,2} swaps<=1", dict(N=3, A=2, MaxTerms=3, MaxList=3, Factors="{1, 2}", MaxSwaps=1), "InitSets", None))
        runs.append(("sets N=4 A=1 <=4 terms {1} swaps<=2", dict(N=4, A=1, MaxTerms=4, MaxList=4, Factors="{1}", MaxSwaps=2), "InitSets", None))
        runs.append(("lists N=2 A=1 <=4 entries {1,-1,2}", dict(N=2, A=1, MaxTerms=4, MaxList=4, MaxSwaps=1), "InitLists", {"Factors": "SignedFactors"}))
    for label, consts, init, subst in runs:
        cfg = tlc.make_cfg(constants=consts, init=init, invariants=INVS, subst=subst)
        r = tlc.run("SymbolicMpo", cfg, vacuity=True, timeout=3000 if tier == "quick" else 9000)
        ctx.add_tlc(r, label)
        if r["violated"]:
            ctx.violation(f"C01:spec:{r['violated']}", f"design model violates {r['violated']} ({label})", {"tlc": r.get("error_text", "")[:3000]})
        cov = r.get("coverage_summary") or {}
        for act in ("Step", "SwapSite"):
            if cov.get(act, {}).get("taken", 0) == 0:
                raise MachineryError(f"vacuous: action {act} never taken in {label}: {cov}")


def emit_cases(ctx, tier):
    """-> list of cases (dict with input, terms, rawmin)."""
    if tier == "quick":
        specs = [(dict(N=3, A=1, MaxTerms=3, MaxList=3, Factors="{1, 2}", MaxSwaps=0), "InitSets", None),
                 (dict(N=3, A=2, MaxTerms=2, MaxList=2, Factors="{1}", MaxSwaps=0), "InitSets", None),
                 (dict(N=2, A=2, MaxTerms=3, MaxList=3, MaxSwaps=0), "InitSets", {"Factors": "SignedFactors"}),
                 (dict(N=2, A=1, MaxTerms=3, MaxList=3, MaxSwaps=0), "InitLists", {"Factors": "SignedFactors"}),
                 # rank-deficient cuts need >= 4 terms over two non-trivial symbols per site: unit factors keep this family small
                 (dict(N=2, A=2, MaxTerms=4, MaxList=4, Factors="{1}", MaxSwaps=0), "InitSets", None),
                 # one-site models (several terms on the only site, with and without offset)
                 (dict(N=1, A=2, MaxTerms=3, MaxList=3, MaxSwaps=0), "InitSets", {"Factors": "SignedFactors"}),
                 # product tables S_1 x ... x S_N with unit prefactors: rank-deficient prefactor matrices at every cut
                 (dict(N=2, A=2, MaxTerms=6, MaxList=6, Factors="{1}", MaxSwaps=0), "InitProducts", None),
                 (dict(N=3, A=1, MaxTerms=4, MaxList=4, Factors="{1}", MaxSwaps=0), "InitProducts", None)]
    else:
        specs = [(dict(N=3, A=2, MaxTerms=3, MaxList=3, Factors="{1}", MaxSwaps=0), "InitSets", None),
                 (dict(N=3, A=1, MaxTerms=3, MaxList=3, MaxSwaps=0), "InitSets", {"Factors": "SignedFactors"}),
                 (dict(N=4, A=1, MaxTerms=3, MaxList=3, Factors="{1, 2}", MaxSwaps=0), "InitSets", None),
                 (dict(N=4, A=2, MaxTerms=2, MaxList=2, Factors="{1}", MaxSwaps=0), "InitSets", None),
                 (dict(N=2, A=2, MaxTerms=4, MaxList=4, MaxSwaps=0), "InitSets", {"Factors": "SignedFactors"}),
                 (dict(N=2, A=1, MaxTerms=4, MaxList=4, MaxSwaps=0), "InitLists", {"Factors": "SignedFactors"}),
                 (dict(N=1, A=2, MaxTerms=3, MaxList=3, MaxSwaps=0), "InitSets", {"Factors": "SignedFactors"}),
                 (dict(N=2, A=2, MaxTerms=6, MaxList=6, Factors="{1}", MaxSwaps=0), "InitProducts", None),
                 (dict(N=3, A=2, MaxTerms=6, MaxList=6, Factors="{1}", MaxSwaps=0), "InitProducts", None)]
    cases = []
    for consts, init, subst in specs:
        cfg = tlc.make_cfg(constants=consts, init=init, invariants=["EmitCase"], constraints=["OnlyInit"], subst=subst)
        r = tlc.run("SymbolicMpo", cfg, mode="emit", timeout=3000)
        ctx.add_tlc(r, f"emit {consts} {init}")
        if not r["emitted"]:
            raise MachineryError("TLC emitted no cases")
        for e in r["emitted"]:
            e["_always"] = (init == "InitProducts" or consts["N"] == 1)
        cases.extend(r["emitted"])
    return cases


def _replay_chunk(args):
    from ..common import bootstrap
    bootstrap()
    from .. import replay_mpo
    chunk, seed, tier, want_covers = args
    out = []
    for idx, case in chunk:
        out.append((idx, replay_mpo.replay_case(case, idx, seed, tier, want_trace=True, want_covers=want_covers)))
    return out


def replay_all(ctx, cases, want_covers=False, sample=None):
    items = list(enumerate(cases))
    if sample is not None and len(items) > sample:
        import random
        rnd = random.Random(ctx.seed)
        keep = [it for it in items if it[1].get("_always")]
        rest = [it for it in items if not it[1].get("_always")]
        items = keep + rnd.sample(rest, max(0, min(len(rest), sample - len(keep))))
        items.sort(key=lambda x: x[0])
    n = 64
    ch = [items[i::n] for i in range(n)]
    ch = [c for c in ch if c]
    results = pmap(_replay_chunk, [(c, ctx.seed, ctx.tier, want_covers) for c in ch], chunksize=1)
    flat = []
    for st, r in results:
        if st != "ok":
            raise MachineryError("replay worker failed: " + r)
        flat.extend(r)
    flat.sort(key=lambda x: x[0])
    return flat


def judge_traces(ctx, traces):
    """Hand symbolic operators recorded from the real code to TLC (SymbolicMpoTrace)."""
    if not traces:
        raise MachineryError("no symbolic operators exported for TLC")
    verdicts = {}
    B = 4000
    # binding demonstration: a copy of a recorded operator whose input terms carry one changed coefficient must not denote them
    import copy
    donor = next((t for t in traces if t["terms"] and any(w for w in t["terms"][0][0])), traces[0])
    bad = copy.deepcopy(donor)
    bad["id"] = "corrupted-copy"
    bad["terms"][0][1] = bad["terms"][0][1] + 1
    traces = list(traces) + [bad]
    for k in range(0, len(traces), B):
        batch = traces[k:k + B]
        with tempfile.NamedTemporaryFile("w", suffix=".json", delete=False) as fh:
            json.dump(batch, fh)
            path = fh.name
        try:
            cfg = tlc.make_cfg(init="Init", next_="Next", invariants=["Verdict"])
            r = tlc.run("SymbolicMpoTrace", cfg, mode="trace", env={"TRACE_FILE": path}, timeout=3000)
        finally:
            os.unlink(path)
        ctx.add_tlc(r, "SymbolicMpoTrace batch")
        if len(r["verdicts"]) != len(batch):
            raise MachineryError(f"TLC returned {len(r['verdicts'])} verdicts for {len(batch)} traces")
        for v in r["verdicts"]:
            verdicts[v["id"]] = v
    cv = verdicts.pop("corrupted-copy", None)
    if cv is None or (cv["wellformed"] and cv["denotes"]):
        raise MachineryError("binding demonstration failed: SymbolicMpoTrace accepted a recorded operator against changed input terms")
    ctx.notes["binding_demonstration"] = "corrupted copy (one input coefficient + 1) rejected by SymbolicMpoTrace"
    return verdicts


def _regroup_chunk(args):
    from ..common import bootstrap
    bootstrap()
    from .. import replay_mpo
    ids, seed = args
    return [(i, replay_mpo.regroup_case(i, seed)) for i in ids]


def regroup(ctx):
    n = 48 if ctx.tier == "quick" else 400
    res = pmap(_regroup_chunk, [(list(range(k, n, 16)), ctx.seed) for k in range(16)], chunksize=1)
    b = 0
    for st, r in res:
        if st != "ok":
            raise MachineryError("regroup worker failed: " + r)
        for i, out in r:
            ctx.case(fingerprint=f"regroup/{i}", nontrivial=True)
            b += out["builds"]
            for key, what, detail in out["viol"]:
                ctx.violation(key, what, detail)
    ctx.notes["regroup_builds"] = b


def run(ctx):
    tier = ctx.tier
    design_runs(ctx, tier)
    cases = emit_cases(ctx, tier)
    flat = replay_all(ctx, cases, sample=None if tier == "thorough" else 2500)
    traces = []
    builds = swaps = 0
    for idx, r in flat:
        ctx.case(fingerprint=json.dumps(cases[idx]["input"]), nontrivial=r["nontrivial"])
        builds += r["builds"]
        swaps += r["swaps"]
        for key, what, detail in r["viol"]:
            if key.startswith("C01"):
                ctx.violation(key, what, detail)
        traces.extend(r["traces"])
    regroup(ctx)
    verdicts = judge_traces(ctx, traces)
    by_id = {t["id"]: t for t in traces}
    for tid, v in verdicts.items():
        ctx.traces(1)
        if not (v["wellformed"] and v["denotes"]):
            kind = "swap" if "swap" in tid else "build"
            algo = tid.split("/")[2]
            ctx.violation(f"C01:trace-denotation:{kind}:{algo}",
                          f"TLC: symbolic operator {tid} produced by the code does not denote the input terms (wellformed={v['wellformed']})",
                          by_id[tid])
        # label verdicts belong to C06 (bond charges) and are reported there
    ctx.notes["mpo_builds"] = builds
    ctx.notes["swaps_applied"] = swaps
    ctx.notes["cases_emitted_by_tlc"] = len(cases)
    ctx.cov["rule"] = ("cases = term tables enumerated by TLC from SymbolicMpo.Init (all sets of <=K words over N sites x A symbols "
                       "with every factor assignment, plus all raw lists with repeated/cancelling words); each is built with qr/"
                       "Hopcroft-Karp/Hungarian on model families (spin, electron, electron-phonon incl. shifted SHO, 2-component qn, "
                       "multi-DoF site), integer and complex wide-range factors, with and without offset; non-trivial = >= 2 distinct words; "
                       "distinct = distinct raw input list")
    for idx, r in flat[:3]:
        ctx.sample({"input": cases[idx]["input"], "rawmin": cases[idx]["rawmin"]})
    if traces:
        ctx.sample({"trace_judged_by_TLC": traces[len(traces) // 2]})
    ctx.assumptions += ["dense reference built from hand-written local matrices (checked equal to basis.op_mat by C16)",
                        "exactly cancelling term lists (zero operator) are outside the accepted inputs (library raises on all-zero factors)",
                        "code->spec judgement covers the graph algorithms with integer factors; qr has float factors (dense comparison only)"]
