----------------------------- MODULE SymbolicMpo -----------------------------
(* Symbolic MPO construction  (renormalizer/mps/symbolic_mpo.py)

     _terms_to_table + _deduplicate_table   ->  Init / Dedup      (list of terms -> table with summed factors)
     _construct_symbolic_mpo                ->  loop of Step      (one Step = _construct_symbolic_mpo_one_site
                                                                    + _decompose_graph for one site)
     Mpo.try_swap_site / swap_site          ->  SwapSite(i)       (operator re-expressed in the exchanged order)

   The denotation of every partial ("out") operator on the current bond is carried as a ghost
   value `den` (a WordBags bag over words of the sites already absorbed).  The loop invariant
   of the construction is   Sum_rows  f * den[op] (x) suffix  =  input terms.
   The vertex cover is chosen nondeterministically among ALL minimum covers, so every correct
   implementation of the cover step (Hopcroft-Karp, Hungarian, any tie-breaking) refines Step.   *)
EXTENDS WordBags, TLC, Json

CONSTANTS N,          \* sites
          A,          \* non-identity symbols per site (0 = I)
          MaxTerms,   \* max number of distinct words in the input
          MaxList,    \* max length of the raw input list (duplicates allowed), >= MaxTerms
          Factors,    \* allowed integer factors of the raw list entries
          MaxSwaps    \* number of adjacent-site exchanges explored after the build

Sym == 0..A
SignedFactors == {1, -1, 2}      \* substituted for Factors with <- (a cfg cannot contain negative numbers)
Words(n) == [1..n -> Sym]

VARIABLES input,    \* raw list of <<word, coeff>> as the user passes it (duplicates / cancelling entries allowed)
          terms,    \* bag: the operator the MPO must denote (current site order)
          site,     \* number of sites already decomposed (= bond index)
          den,      \* den[j]: denotation of out operator j on bond `site`
          table,    \* rows [op |-> j, suf |-> word over remaining sites, f |-> factor]; (op,suf) unique
          bonds,    \* bonds[b] = number of out operators on bond b (1..site)
          swaps
vars == <<input, terms, site, den, table, bonds, swaps>>

SeqOf(S) == CHOOSE s \in [1..Cardinality(S) -> S] : \A i, j \in 1..Cardinality(S) : i # j => s[i] # s[j]
InitTable(B) == {[op |-> 1, suf |-> p[1], f |-> p[2]] : p \in B}
Denotation == BSum({ BConcat(den[r.op], r.suf, r.f) : r \in table })

\* raw inputs.  InitSets: every set of <= MaxTerms distinct words with every factor assignment (the order of
\* the list is irrelevant: np.unique sorts the table).  InitLists: every list of <= MaxList entries, repeated
\* words allowed, so that factors add up or cancel in _deduplicate_table (use with small N, A).
Common ==
  /\ terms = BOfList(input)
  /\ terms # {}                                              \* an exactly cancelling list is excluded (see DESIGN)
  /\ site = 0
  /\ den = <<{<< <<>>, 1 >>}>>                                \* bond 0 carries the identity
  /\ table = InitTable(terms)
  /\ bonds = <<>>
  /\ swaps = 0
\* (enumerated as strictly increasing sequences of words, not as SUBSET Words(N), which has 2^|Words| elements)
RECURSIVE WVal(_, _)
WVal(w, i) == IF i > Len(w) THEN 0 ELSE w[i] + (A + 1) * WVal(w, i + 1)
InitSets ==
  /\ \E n \in 1..MaxTerms : \E ws \in [1..n -> Words(N)] :
        /\ \A i \in 1..(n - 1) : WVal(ws[i], 1) < WVal(ws[i + 1], 1)
        /\ \E f \in [1..n -> Factors] : input = [k \in 1..n |-> <<ws[k], f[k]>>]
  /\ Common
InitLists ==
  /\ input \in UNION {[1..n -> Words(N) \X Factors] : n \in 1..MaxList}
  /\ Common
\* every product table  S_1 x ... x S_N  of per-site symbol sets with unit prefactors (rank-deficient coefficient matrices at
\* every cut: the minimum cover is min(|rows|, |columns|) while the numerical rank of the prefactor matrix is 1)
RECURSIVE SortedWords(_)
SortedWords(S) == IF S = {} THEN <<>>
                  ELSE LET m == CHOOSE w \in S : \A v \in S : WVal(w, 1) <= WVal(v, 1) IN <<m>> \o SortedWords(S \ {m})
InitProducts ==
  /\ \E S \in [1..N -> (SUBSET Sym) \ {{}}] :
        /\ Cardinality({i \in 1..N : Cardinality(S[i]) >= 2}) >= 2
        /\ LET W == {w \in Words(N) : \A i \in 1..N : w[i] \in S[i]} IN
           /\ Cardinality(W) <= MaxTerms
           /\ input = [k \in 1..Cardinality(W) |-> <<SortedWords(W)[k], 1>>]
  /\ Common
Init == InitSets

\* ---- one site ----
Rows == {<<r.op, Head(r.suf)>> : r \in table}                    \* distinct (incoming op, local symbol)
Cols == {Tail(r.suf) : r \in table}                               \* distinct remaining suffixes
Entry(row, col) == {r \in table : r.op = row[1] /\ Head(r.suf) = row[2] /\ Tail(r.suf) = col}
Edge(row, col) == Entry(row, col) # {}
F(row, col) == (CHOOSE r \in Entry(row, col) : TRUE).f
IsCover(RS, CS) == \A row \in Rows, col \in Cols : Edge(row, col) => (row \in RS \/ col \in CS)
CoverSizes == {Cardinality(RS) + Cardinality(CS) : <<RS, CS>> \in {c \in (SUBSET Rows) \X (SUBSET Cols) : IsCover(c[1], c[2])}}
MinCoverSize == CHOOSE k \in CoverSizes : \A m \in CoverSizes : k <= m

Step ==
  /\ site < N
  /\ \E RS \in SUBSET Rows, CS \in SUBSET Cols :
       /\ IsCover(RS, CS)
       /\ Cardinality(RS) + Cardinality(CS) = MinCoverSize
       \* last site: one column (the empty suffix) is left; with U = columns and a perfect matching on U the
       \* Koenig construction returns all of U, i.e. the column, so the factors are absorbed (assert factor[0] == 1)
       /\ (site = N - 1 => RS = {})
       /\ LET rs == SeqOf(RS)  cs == SeqOf(CS)
              nr == Cardinality(RS)  nc == Cardinality(CS)
              \* retained rows: out operator = in_op (x) symbol, factor 1; one new table row per linked column
              denRow(i) == BAppend(den[rs[i][1]], rs[i][2])
              \* complementary operators: sum over the remaining rows linked to the column, factors absorbed
              rem(col) == {row \in Rows \ RS : Edge(row, col)}
              denCol(k) == BSum({ BScale(BAppend(den[row[1]], row[2]), F(row, cs[k])) : row \in rem(cs[k]) })
              newden == [j \in 1..(nr + nc) |-> IF j <= nr THEN denRow(j) ELSE denCol(j - nr)]
              tabR == UNION { {[op |-> i, suf |-> col, f |-> F(rs[i], col)] : col \in {x \in Cols : Edge(rs[i], x)}} : i \in 1..nr }
              tabC == {[op |-> nr + k, suf |-> cs[k], f |-> 1] : k \in 1..nc}
          IN /\ den' = newden
             /\ table' = tabR \cup tabC
             /\ bonds' = Append(bonds, nr + nc)
  /\ site' = site + 1
  /\ UNCHANGED <<input, terms, swaps>>

\* Mpo.try_swap_site: the same operator in the site order with i and i+1 exchanged.  The spec
\* states WHAT must hold (a valid construction of the permuted terms); the local two-site
\* re-decomposition of swap_site refines "rebuild" because every invariant below is about
\* the denotation, not about which cover was taken.
SwapSite(i) ==
  /\ site = N /\ swaps < MaxSwaps /\ i \in 1..(N - 1)
  /\ terms' = BSwap(terms, i)
  /\ site' = 0 /\ den' = <<{<< <<>>, 1 >>}>> /\ table' = InitTable(BSwap(terms, i)) /\ bonds' = <<>>
  /\ swaps' = swaps + 1
  /\ UNCHANGED input

Next == Step \/ \E i \in 1..(N - 1) : SwapSite(i)
Spec == Init /\ [][Next]_vars

\* ------------------------------------------------------------------ invariants
\* the loop invariant of the construction, evaluated after every site
LoopInv == Denotation = terms
\* at the end a single operator remains and it IS the input
FinalInv == site = N => (Len(den) = 1 /\ den[1] = terms /\ table = {[op |-> 1, suf |-> <<>>, f |-> 1]})
\* no empty complementary operator in a minimum cover
NonEmpty == \A j \in 1..Len(den) : den[j] # {}

\* ---- C20: the bond is a minimum cover of the raw prefix/suffix incidence matrix of the input
RawRowsAt(B, cut) == {SubSeq(p[1], 1, cut) : p \in B}
RawColsAt(B, cut) == {SubSeq(p[1], cut + 1, N) : p \in B}
RawEdgeAt(B, a, b) == \E p \in B : p[1] = a \o b
RawSizes(B, cut) == {Cardinality(c[1]) + Cardinality(c[2]) :
                        c \in {c \in (SUBSET RawRowsAt(B, cut)) \X (SUBSET RawColsAt(B, cut)) :
                               \A a \in RawRowsAt(B, cut), b \in RawColsAt(B, cut) :
                                   RawEdgeAt(B, a, b) => (a \in c[1] \/ b \in c[2])}}
RawMinAt(B, cut) == CHOOSE k \in RawSizes(B, cut) : \A m \in RawSizes(B, cut) : k <= m
BondInv == site > 0 => /\ Len(den) <= Cardinality(RawRowsAt(terms, site))
                       /\ Len(den) <= Cardinality(RawColsAt(terms, site))
RawConj == (site > 0 /\ site < N) => Len(den) = RawMinAt(terms, site)

\* ------------------------------------------------------------------ emission of cases (spec -> code)
TermsAsSeq(B) == LET s == SeqOf(B) IN [k \in 1..Len(s) |-> [w |-> s[k][1], c |-> s[k][2]]]
EmitCase ==
  (site = 0 /\ swaps = 0) =>
     PrintT(<<"EMIT", ToJson([input |-> [k \in DOMAIN input |-> [w |-> input[k][1], c |-> input[k][2]]],
                               terms |-> TermsAsSeq(terms),
                               rawmin |-> [cut \in 1..(N - 1) |-> RawMinAt(terms, cut)]])>>)
OnlyInit == site = 0 /\ swaps = 0 /\ FALSE     \* constraint used by the emission config: do not expand
=============================================================================
