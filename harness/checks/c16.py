"""C16 — built-in basis sets and model builders realise their documented physics.

The discrete part (site orders of the Holstein schemes, periodic wrap-around of the translation-invariant builder)
is specified in ModelBuilders.tla: TLC enumerates every parameter combination inside the bounds, checks the
index invariants and emits the expected orders/supports, which drive the construction of the real models and of
the independently assembled dense Hamiltonians.  The matrix identities of the local bases are floating-point
statements outside TLA+ (DESIGN section 6): they are decided by an oracle built from ladder operators in a
LARGER basis (exact operator products, then truncated: the documented top-level truncation), Gauss-Legendre
quadrature of the analytic sine functions, and hand-written Pauli / projector matrices.
"""
import itertools
import json

import numpy as np

from .. import tlc
from ..common import pmap, MachineryError, bootstrap, rng_for

LEVEL = "exploration"


def _bigops(n, omega, x0, extra=6):
    N = n + extra
    b = np.diag(np.sqrt(np.arange(1, N)), k=1)
    bd = b.T
    x = np.sqrt(0.5 / omega) * (b + bd) + x0 * np.eye(N)
    p = 1j * np.sqrt(omega / 2) * (bd - b)
    return {"b": b, r"b^\dagger": bd, "x": x, "p": p, "dx": (p / -1j), "I": np.eye(N), "n": bd @ b}


def _sho_cases(args):
    bootstrap()
    from renormalizer.model import basis as ba
    seed, k = args
    out = {"cases": [], "viol": []}
    grid = [(n, om, x0, dvr, gen) for n in (1, 2, 3, 5, 8) for om in (0.6, 1.7) for x0 in (0.0, 0.45)
            for dvr in (False, True) for gen in (False, True)]
    grid = grid[k::8]
    for n, omega, x0, dvr, gen in grid:
        if dvr and n == 1:
            continue
        B = ba.BasisSHO("v", omega, n, x0=x0, dvr=dvr, general_xp_power=gen)
        big = _bigops(n, omega, x0)
        V = B.dvr_v if dvr else np.eye(n)
        detail0 = {"basis": "SHO", "nbas": n, "omega": omega, "x0": x0, "dvr": dvr, "general_xp_power": gen}

        def ref(word):
            m = np.eye(n + 6, dtype=complex)
            for l in word:
                m = m @ big[l]
            return m[:n, :n]

        def chk(symbol, refm, tag, below_top=False):
            out["cases"].append(f"SHO/{n}/{omega}/{x0}/{dvr}/{gen}/{symbol}")
            try:
                got = np.asarray(B.op_mat(symbol), dtype=complex)
            except Exception as e:
                out["viol"].append((f"C16:SHO:raises:{symbol}", f"op_mat({symbol!r}) raised {type(e).__name__}: {e}", dict(detail0, symbol=symbol)))
                return
            if dvr:
                got = V @ got @ V.T          # back to the number basis (unitary consistency)
            a, b_ = (got[: n - 1, : n - 1], refm[: n - 1, : n - 1]) if below_top else (got, refm)
            err = np.linalg.norm(a - b_)
            if err > 1e-9 * (np.linalg.norm(b_) + 1):
                out["viol"].append((f"C16:SHO:{tag}:{symbol}", f"op_mat({symbol!r}) differs from the ordered product of exact operators (truncated) by {err:.2e}",
                                    dict(detail0, symbol=symbol)))
        # single letters
        if x0 == 0.0:
            for l in ("b", r"b^\dagger"):
                if not dvr:
                    chk(l, ref([l]), "letter")
            for w in (["b", "b"], [r"b^\dagger", r"b^\dagger"], [r"b^\dagger", "b"], ["b", r"b^\dagger"]):
                if not dvr:
                    chk(" ".join(w), ref(w), "ordered-product")
            if not dvr:
                chk(r"b^\dagger + b", ref(["b"]) + ref([r"b^\dagger"]), "letter")
        chk("x", ref(["x"]), "letter")
        if not (dvr and x0 != 0):
            chk("p", ref(["p"]), "letter")
            chk("dx", ref(["dx"]), "letter")
        chk("I", np.eye(n), "letter")
        # powers = powers of the exact operators (top level: DVR squares the truncated x, compare below the top level)
        for kpow in (2, 3, 4, 5):
            if kpow >= n + 4:
                continue
            if dvr:
                # DVR: f(x) := f(truncated x); consistent with the plain basis through the rotation, for every power
                xt = ref(["x"])
                chk(f"x^{kpow}", np.linalg.matrix_power(xt, kpow), "dvr-power")
            else:
                chk(f"x^{kpow}", ref(["x"] * kpow), "power")
            if not dvr:
                chk(f"p^{kpow}", ref(["p"] * kpow), "power")
        if not dvr:
            chk("x x", ref(["x", "x"]), "ordered-product")
            chk("p p", ref(["p", "p"]), "ordered-product")
            chk("dx dx", ref(["dx", "dx"]), "ordered-product")
            chk("dx^2", ref(["dx", "dx"]), "ordered-product")
            if x0 == 0.0:
                chk("x p", ref(["x", "p"]), "ordered-product")
                chk("p x", ref(["p", "x"]), "ordered-product")
                chk("x dx", ref(["x", "dx"]), "ordered-product")
                chk("dx x", ref(["dx", "x"]), "ordered-product")
        # canonical commutator below the top level, from the basis' own x and p
        if n >= 3 and not dvr:
            x_, p_ = np.asarray(B.op_mat("x"), dtype=complex), np.asarray(B.op_mat("p"), dtype=complex)
            c = (x_ @ p_ - p_ @ x_)[: n - 1, : n - 1]
            out["cases"].append(f"SHO/{n}/{omega}/{x0}/commutator")
            if np.linalg.norm(c - 1j * np.eye(n - 1)) > 1e-10:
                out["viol"].append(("C16:SHO:commutator", "[x,p] != i below the top level", detail0))
    return out


def _sine_cases(args):
    bootstrap()
    from renormalizer.model import basis as ba
    seed, k = args
    out = {"cases": [], "viol": []}
    grid = [(n, xi, xf, ep) for n in (3, 5, 8) for (xi, xf) in ((-1.0, 2.0), (0.0, np.pi)) for ep in (False, True)]
    for n, xi, xf, endpoint in grid[k::4]:
        B = ba.BasisSineDVR("q", n, xi, xf, endpoint=endpoint)
        a, L = B.xi, B.L
        xs, ws = np.polynomial.legendre.leggauss(400)
        xs = a + (xs + 1) * L / 2
        ws = ws * L / 2
        j = np.arange(1, n + 1)
        psi = np.sqrt(2 / L) * np.sin(np.outer(j, np.pi * (xs - a) / L))
        d1 = np.sqrt(2 / L) * (j[:, None] * np.pi / L) * np.cos(np.outer(j, np.pi * (xs - a) / L))
        d2 = -((j[:, None] * np.pi / L) ** 2) * psi

        def integ(f_left, g_right):
            return (f_left * ws) @ g_right.T
        refs = {
            "I": integ(psi, psi), "x": integ(psi * xs, psi), "x^2": integ(psi * xs ** 2, psi), "x^3": integ(psi * xs ** 3, psi),
            "dx": integ(psi, d1), "dx^2": integ(psi, d2), "p^2": -integ(psi, d2), "p": -1j * integ(psi, d1),
            "x dx": integ(psi * xs, d1), "x^2 dx": integ(psi * xs ** 2, d1), "x p^2": -integ(psi * xs, d2),
            "x^2 p^2": -integ(psi * xs ** 2, d2), "x^3 p^2": -integ(psi * xs ** 3, d2),
        }
        detail0 = {"basis": "SineDVR", "nbas": n, "xi": xi, "xf": xf, "endpoint": endpoint}
        for sym, refm in refs.items():
            out["cases"].append(f"Sine/{n}/{xi}/{endpoint}/{sym}")
            try:
                got = np.asarray(B.op_mat(sym), dtype=complex)
            except Exception as e:
                out["viol"].append((f"C16:SineDVR:raises:{sym}", f"op_mat({sym!r}) raised {type(e).__name__}: {e}", dict(detail0, symbol=sym)))
                continue
            err = np.linalg.norm(got - refm)
            if err > 1e-8 * (np.linalg.norm(refm) + 1):
                out["viol"].append((f"C16:SineDVR:integral:{sym}", f"op_mat({sym!r}) differs from the integral over the analytic sine functions by {err:.2e}", dict(detail0, symbol=sym)))
        # DVR variant: unitary rotation of the same operators, x diagonal at the grid points; identity requests in between must not matter
        Bd = ba.BasisSineDVR("q", n, xi, xf, endpoint=endpoint, dvr=True)
        V = Bd.dvr_v
        for sym in ("x", "I", "x^2", "dx", "I", "p^2", "x dx", "x"):
            out["cases"].append(f"SineDVR/{n}/{xi}/{endpoint}/{sym}")
            got = np.asarray(Bd.op_mat(sym), dtype=complex)
            back = V @ got @ V.T
            if np.linalg.norm(back - refs[sym]) > 1e-8 * (np.linalg.norm(refs[sym]) + 1):
                out["viol"].append((f"C16:SineDVR:dvr-rotation:{sym}", f"DVR matrix of {sym!r} is not the rotated sine-basis matrix (err {np.linalg.norm(back - refs[sym]):.2e})", dict(detail0, symbol=sym)))
    return out


def _spin_electron_cases(_):
    bootstrap()
    from renormalizer.model import basis as ba, Op
    out = {"cases": [], "viol": []}
    sx = np.array([[0, 1], [1, 0]], dtype=complex)
    sy = np.array([[0, -1j], [1j, 0]])
    sz = np.array([[1, 0], [0, -1]], dtype=complex)
    sp = np.array([[0, 1], [0, 0]], dtype=complex)
    sm = sp.T
    ref = {"sigma_x": sx, "X": sx, "x": sx, "sigma_y": sy, "Y": sy, "y": sy, "sigma_z": sz, "Z": sz, "z": sz, "isigma_y": 1j * sy, "iY": 1j * sy,
           "iy": 1j * sy, "sigma_+": sp, "+": sp, "sigma_-": sm, "-": sm, "I": np.eye(2, dtype=complex)}
    B = ba.BasisHalfSpin("s")
    for word in itertools.chain(((s,) for s in ref), itertools.product(["sigma_x", "sigma_y", "sigma_z", "sigma_+", "sigma_-", "X", "iY", "Z", "I"], repeat=2),
                                itertools.product(["sigma_x", "sigma_z", "sigma_+"], repeat=3)):
        sym = " ".join(word)
        out["cases"].append("spin/" + sym)
        m = np.eye(2, dtype=complex)
        for l in word:
            m = m @ ref[l]
        try:
            got = np.asarray(B.op_mat(Op(sym, ["s"] * len(word))), dtype=complex)
        except Exception as e:
            out["viol"].append((f"C16:spin:raises:{sym}", f"{type(e).__name__}: {e}", {"symbol": sym}))
            continue
        if np.linalg.norm(got - m) > 1e-12:
            out["viol"].append((f"C16:spin:ordered-product:{sym}", "spin symbol product is not the matrix product in the written order", {"symbol": sym}))
    # simple electron
    E = ba.BasisSimpleElectron("e")
    cr = np.array([[0, 0], [1, 0]], dtype=float)
    for sym, refm in ((r"a^\dagger", cr), ("a", cr.T), (r"a^\dagger a", cr @ cr.T), ("I", np.eye(2))):
        out["cases"].append("elec/" + sym)
        if np.linalg.norm(np.asarray(E.op_mat(sym)) - refm) > 1e-14:
            out["viol"].append((f"C16:electron:{sym}", "BasisSimpleElectron matrix wrong", {"symbol": sym}))
    # multi electron: a single 1 at the documented position
    for nd in (1, 2, 3, 4):
        dofs = [("m", i) for i in range(nd)]
        for vac in (True, False):
            B = ba.BasisMultiElectronVac(dofs) if vac else ba.BasisMultiElectron(dofs, [1] * nd)
            off = 1 if vac else 0
            dim = nd + off
            for i in range(nd):
                for j in range(nd):
                    out["cases"].append(f"multi/{nd}/{vac}/{i}{j}")
                    refm = np.zeros((dim, dim))
                    refm[i + off, j + off] = 1.0
                    got = np.asarray(B.op_mat(Op(r"a^\dagger a", [dofs[i], dofs[j]])))
                    if got.shape != refm.shape or np.linalg.norm(got - refm) > 1e-14:
                        out["viol"].append((f"C16:multi-electron:adag-a:{'vac' if vac else 'novac'}", f"a^dagger_{i} a_{j} is not the single 1 at ({i + off},{j + off})", {"nd": nd, "i": i, "j": j}))
            if vac:
                for i in range(nd):
                    refm = np.zeros((dim, dim))
                    refm[i + 1, 0] = 1.0
                    for sym, r_ in ((r"a^\dagger", refm), ("a", refm.T)):
                        out["cases"].append(f"multi/{nd}/vac/{sym}{i}")
                        got = np.asarray(B.op_mat(Op(sym, [dofs[i]])))
                        if np.linalg.norm(got - r_) > 1e-14:
                            out["viol"].append((f"C16:multi-electron:{sym}", f"{sym}_{i} not at the documented position", {"nd": nd, "i": i}))
    # Quantity round trips
    from renormalizer.utils import Quantity
    for unit in ("meV", "eV", "cm-1", "K", "a.u.", "fs", "cm^{-1}", "au"):
        for v in (0.37, 12.5, 300.0):
            out["cases"].append(f"quantity/{unit}/{v}")
            q = Quantity(v, unit)
            back = Quantity(q.as_au(), "a.u.").as_unit(unit).value
            if abs(back - v) > 1e-12 * abs(v):
                out["viol"].append((f"C16:quantity:{unit}", f"Quantity({v},{unit}) -> a.u. -> {unit} gives {back}", {"unit": unit, "v": v}))
    return out


# ------------------------------------------------------------------------------------------ model builders

def _trunc_ops(n, omega):
    big = _bigops(n, omega, 0.0)
    x = big["x"]
    p = big["p"]
    return {"x": x[:n, :n].real, "x2": (x @ x)[:n, :n].real, "p2": (p @ p)[:n, :n].real}


def _builder_cases(args):
    bootstrap()
    from renormalizer.model import HolsteinModel, Mol, Phonon, SpinBosonModel, TI1DModel, Op, basis as ba
    from renormalizer.mps import Mpo
    from renormalizer.utils import Quantity
    cases, seed = args
    out = {"cases": [], "viol": []}
    for ci, c in cases:
        rng = rng_for(seed, "c16", ci)
        if c["kind"] == "holstein":
            modes, scheme = c["modes"], c["scheme"]
            M = len(modes)
            if sum(modes) + M > 7:
                continue
            for periodic in (False, True):
                if periodic and M < 3:
                    continue
                mols = []
                par = []
                for m in range(M):
                    phs = []
                    for i in range(modes[m]):
                        wg = float(rng.uniform(0.5, 1.5))
                        we = wg if rng.random() < 0.4 else float(rng.uniform(0.5, 1.5))
                        d = float(rng.uniform(-0.8, 0.8))
                        nb = int(rng.integers(2, 4))
                        phs.append(Phonon([Quantity(wg), Quantity(we)], [Quantity(0), Quantity(d)], nb))
                        par.append((m, i, wg, we, d, nb))
                    mols.append(Mol(Quantity(float(rng.uniform(-0.5, 0.5))), phs))
                J = float(rng.uniform(0.1, 0.6))
                detail = {"case": c, "periodic": periodic, "params": par}
                try:
                    model = HolsteinModel(mols, Quantity(J), scheme=scheme, periodic=periodic)
                except Exception as e:
                    out["viol"].append((f"C16:holstein:raises:scheme{scheme}", f"{type(e).__name__}: {e}", detail))
                    continue
                # site order as documented (= spec)
                got_order = []
                for b in model.basis:
                    if b.is_phonon:
                        got_order.append(["ph", b.dof[0], b.dof[1]])
                    elif getattr(b, "multi_dof", False):
                        got_order.append(["E"])
                    else:
                        got_order.append(["e", b.dof])
                out["cases"].append(f"holstein/{modes}/{scheme}/{periodic}")
                if got_order != [list(x) for x in c["order"]]:
                    out["viol"].append((f"C16:holstein:site-order:scheme{scheme}", f"site order {got_order} differs from the documented order {c['order']}", detail))
                    continue
                # independent dense Hamiltonian in that order
                dims = []
                for tag in c["order"]:
                    if tag[0] == "ph":
                        nb = [p_[5] for p_ in par if p_[0] == tag[1] and p_[1] == tag[2]][0]
                        dims.append(nb)
                    elif tag[0] == "E":
                        dims.append(M + 1)
                    else:
                        dims.append(2)
                pos = {tuple(t): k for k, t in enumerate(c["order"])}

                def embed(mats):
                    full = [np.eye(d) for d in dims]
                    for k_, m_ in mats.items():
                        full[k_] = full[k_] @ m_
                    o = np.array([[1.0]])
                    for m_ in full:
                        o = np.kron(o, m_)
                    return o

                def e_op(i, j):
                    """a^dagger_i a_j as {site: matrix}"""
                    if scheme == 4:
                        m_ = np.zeros((M + 1, M + 1))
                        m_[i + 1, j + 1] = 1.0
                        return {pos[("E",)]: m_}
                    cr = np.array([[0., 0.], [1., 0.]])
                    if i == j:
                        return {pos[("e", i)]: cr @ cr.T}
                    return {pos[("e", i)]: cr, pos[("e", j)]: cr.T}
                dim = int(np.prod(dims))
                H = np.zeros((dim, dim))
                jm = np.zeros((M, M))
                for i in range(M - 1):
                    jm[i, i + 1] = jm[i + 1, i] = J
                if periodic:
                    jm[0, M - 1] = jm[M - 1, 0] = J
                for i in range(M):
                    e0 = sum(0.5 * p_[4] ** 2 * p_[3] ** 2 for p_ in par if p_[0] == i)
                    H += (mols[i].elocalex + e0) * embed(e_op(i, i))
                    for j in range(M):
                        if i != j and jm[i, j] != 0:
                            H += jm[i, j] * embed(e_op(i, j))
                for (m, i, wg, we, d, nb) in par:
                    t = _trunc_ops(nb, wg)
                    k_ = pos[("ph", m, i)]
                    H += embed({k_: 0.5 * t["p2"] + 0.5 * wg ** 2 * t["x2"]})
                    ni = e_op(m, m)
                    for mat, f in ((t["x2"], 0.5 * (we ** 2 - wg ** 2)), (t["x"], -we ** 2 * d)):
                        mats = dict(ni)
                        mats[k_] = mat
                        H += f * embed(mats)
                try:
                    got = Mpo(model).todense()
                except Exception as e:
                    out["viol"].append((f"C16:holstein:mpo-raises:scheme{scheme}", f"{type(e).__name__}: {e}", detail))
                    continue
                # compare on the sector with at most one excitation (shared by all schemes)
                if scheme == 4:
                    keep = np.ones(dim, dtype=bool)
                else:
                    occ = np.zeros(1)
                    for tag, d_ in zip(c["order"], dims):
                        occ = (occ[:, None] + (np.arange(d_) if tag[0] == "e" else np.zeros(d_))[None, :]).reshape(-1)
                    keep = occ <= 1
                err = np.linalg.norm((got - H)[np.ix_(keep, keep)])
                if err > 1e-9 * (np.linalg.norm(H) + 1):
                    out["viol"].append((f"C16:holstein:hamiltonian:scheme{scheme}",
                                        f"Hamiltonian of the built model differs from the documented Holstein Hamiltonian by {err:.2e} on the <=1-excitation sector",
                                        detail))
                # spectrum in the one-excitation sector is independent of the scheme
                if scheme == 4 and M >= 1:
                    try:
                        m2 = model.switch_scheme(2) if not periodic else HolsteinModel(mols, Quantity(J), scheme=2, periodic=True)
                        h2 = Mpo(m2).todense()
                        occ = np.zeros(1)
                        for b in m2.basis:
                            occ = (occ[:, None] + (np.arange(b.nbas) if b.is_electron else np.zeros(b.nbas))[None, :]).reshape(-1)
                        s2 = np.sort(np.linalg.eigvalsh(h2[np.ix_(occ == 1, occ == 1)]))
                        occ4 = np.zeros(1)
                        for tag, d_ in zip(c["order"], dims):
                            occ4 = (occ4[:, None] + ((np.arange(d_) > 0).astype(float) if tag[0] == "E" else np.zeros(d_))[None, :]).reshape(-1)
                        s4 = np.sort(np.linalg.eigvalsh(got[np.ix_(occ4 == 1, occ4 == 1)]))
                        if s2.shape != s4.shape or np.linalg.norm(s2 - s4) > 1e-8 * (np.linalg.norm(s2) + 1):
                            out["viol"].append(("C16:holstein:spectrum-across-schemes", "one-excitation spectra of scheme 2 and scheme 4 differ", detail))
                    except Exception as e:
                        out["viol"].append(("C16:holstein:switch-scheme-raises", f"{type(e).__name__}: {e}", detail))
        else:
            ncell, offs = c["ncell"], c["offs"]
            out["cases"].append(f"ti/{ncell}/{offs}")
            detail = {"case": c}
            basis = [ba.BasisHalfSpin("s")]
            hloc = float(rng.uniform(-1, 1))
            local = [Op("sigma_z", "s", hloc)]
            g = float(rng.uniform(0.2, 1.0))
            syms = ["sigma_x", "sigma_z", "sigma_+"][: len(offs)]
            if len(set(offs)) < len(offs):
                pass
            nonlocal_terms = [Op(" ".join(syms), [(o, "s") for o in offs], g)]
            try:
                model = TI1DModel(basis, local, nonlocal_terms, ncell)
            except Exception as e:
                out["viol"].append(("C16:ti:raises", f"{type(e).__name__}: {e}", detail))
                continue
            sup = []
            for t in model.ham_terms:
                if len(t.dofs) == len(offs) and t.symbol == " ".join(syms) and not (len(offs) == 1 and t.factor == hloc and syms == ["sigma_z"]):
                    sup.append([int(d[0][4:]) for d in t.dofs])
            sup_nl = [s for s in sup]
            if len(offs) == 1 and syms == ["sigma_x"]:
                pass
            exp = [list(x) for x in c["support"]]
            if sorted(sup_nl) != sorted(exp):
                out["viol"].append(("C16:ti:wrap-around", f"interaction supports {sorted(sup_nl)} differ from (i+o) mod n = {sorted(exp)}", detail))
                continue
            if ncell <= 4:
                SXm = np.array([[0., 1.], [1., 0.]])
                SZm = np.array([[1., 0.], [0., -1.]])
                SPm = np.array([[0., 1.], [0., 0.]])
                lm = {"sigma_x": SXm, "sigma_z": SZm, "sigma_+": SPm}

                def emb(mats):
                    full = [np.eye(2) for _ in range(ncell)]
                    for k_, m_ in mats:
                        full[k_] = full[k_] @ m_
                    o = np.array([[1.0]])
                    for m_ in full:
                        o = np.kron(o, m_)
                    return o
                H = np.zeros((2 ** ncell,) * 2)
                for i in range(ncell):
                    H += hloc * emb([(i, SZm)])
                    H += g * emb([((i + o) % ncell, lm[s]) for o, s in zip(offs, syms)])
                try:
                    got = Mpo(model).todense()
                    if np.linalg.norm(got - H) > 1e-10 * (np.linalg.norm(H) + 1):
                        out["viol"].append(("C16:ti:hamiltonian", "translation-invariant Hamiltonian differs from the independently assembled one", detail))
                except Exception as e:
                    out["viol"].append(("C16:ti:mpo-raises", f"{type(e).__name__}: {e}", detail))
    # spin-boson
    rng = rng_for(seed, "c16-sbm", cases[0][0] if cases else 0)
    for nb in (1, 2):
        eps, delta = float(rng.uniform(-1, 1)), float(rng.uniform(0.2, 1))
        phs = [Phonon.simple_phonon(Quantity(float(rng.uniform(0.5, 1.5))), Quantity(float(rng.uniform(-0.6, 0.6))), 3) for _ in range(nb)]
        out["cases"].append(f"sbm/{nb}/{eps:.3f}")
        model = SpinBosonModel(Quantity(eps), Quantity(delta), phs)
        dims = [2] + [3] * nb
        SXm = np.array([[0., 1.], [1., 0.]])
        SZm = np.array([[1., 0.], [0., -1.]])

        def emb(mats):
            full = [np.eye(d) for d in dims]
            for k_, m_ in mats:
                full[k_] = full[k_] @ m_
            o = np.array([[1.0]])
            for m_ in full:
                o = np.kron(o, m_)
            return o
        H = eps * emb([(0, SZm)]) + delta * emb([(0, SXm)])
        for i, ph in enumerate(phs):
            w, d = ph.omega[0], ph.dis[1]
            t = _trunc_ops(3, w)
            H += emb([(i + 1, 0.5 * t["p2"] + 0.5 * w ** 2 * t["x2"])])
            H += (-w ** 2 * d) * emb([(0, SZm), (i + 1, t["x"])])
        got = Mpo(model).todense()
        if np.linalg.norm(got - H) > 1e-10 * (np.linalg.norm(H) + 1):
            out["viol"].append(("C16:spin-boson:hamiltonian", "spin-boson Hamiltonian differs from the documented one", {"nbath": nb}))
    return out


def _copy_cases(args):
    """basis.copy(new_dof) carries every parameter (the translation-invariant builder and add_auxiliary_space build their
    basis sets through copy()), and a translation-invariant model over cells with a displaced oscillator equals the
    sum over cells assembled from the prototype's own matrices."""
    bootstrap()
    from renormalizer.model import TI1DModel, Op, basis as ba
    from renormalizer.mps import Mpo
    seed, k = args
    out = {"cases": [], "viol": []}
    rng = rng_for(seed, "c16-copy", k)
    protos = [(ba.BasisSHO("v", float(rng.uniform(0.5, 1.5)), 3 + k % 2, x0=float(rng.uniform(0.2, 0.7)), dvr=False), ["x", "x^2", "p^2", r"b^\dagger b", "x p"]),
              (ba.BasisSHO("v", float(rng.uniform(0.5, 1.5)), 4, x0=float(rng.uniform(-0.7, -0.2)), dvr=True), ["x", "x^2", "p^2"]),
              (ba.BasisSHO("v", 0.9, 3, general_xp_power=True), ["x^3", "p^2"]),
              (ba.BasisSineDVR("q", 5, float(rng.uniform(-1.0, 0.0)), float(rng.uniform(1.0, 3.0))), ["x", "x^2", "dx", "p^2"]),
              (ba.BasisHalfSpin("s", [0, 0]), ["sigma_x", "sigma_z", "sigma_+"]),
              (ba.BasisHalfSpin("s", [1, -1]), ["sigma_z"]),
              (ba.BasisSimpleElectron("e"), [r"a^\dagger a", "a"]),
              (ba.BasisMultiElectron(["a", "b", "c"], [0, 1, 1]), [r"a^\dagger a"]),
              (ba.BasisMultiElectronVac(["a", "b"]), [r"a^\dagger a"])]
    for b, syms in protos:
        name = type(b).__name__
        try:
            new_dof = [("copy", d) for d in b.dofs] if len(b.dofs) > 1 else ("copy", b.dofs[0])
            c = b.copy(new_dof)
            out["cases"].append(f"copy/{name}/{k}")
            if c.nbas != b.nbas or not np.array_equal(np.asarray(c.sigmaqn), np.asarray(b.sigmaqn)):
                out["viol"].append((f"C16:copy:{name}:shape", f"copy() has nbas {c.nbas} / sigmaqn {np.asarray(c.sigmaqn).tolist()}, original {b.nbas} / {np.asarray(b.sigmaqn).tolist()}", {"basis": name}))
                continue
            for sy in syms:
                d0, d1 = b.dofs[0], c.dofs[0]
                if name.startswith("BasisMultiElectron"):
                    m0 = b.op_mat(Op(sy, [b.dofs[1], b.dofs[1]]))
                    m1 = c.op_mat(Op(sy, [c.dofs[1], c.dofs[1]]))
                else:
                    nsym = len(sy.split())
                    m0 = b.op_mat(Op(sy, [d0] * nsym if nsym > 1 else d0))
                    m1 = c.op_mat(Op(sy, [d1] * nsym if nsym > 1 else d1))
                if np.linalg.norm(np.asarray(m0) - np.asarray(m1)) > 1e-13 * (1 + np.linalg.norm(m0)):
                    out["viol"].append((f"C16:copy:{name}:op_mat", f"op_mat('{sy}') of the copy differs from the original by {np.linalg.norm(np.asarray(m0) - np.asarray(m1)):.2e}", {"basis": name, "symbol": sy}))
                    break
        except Exception as e:
            out["viol"].append((f"C16:copy:{name}:raises:{type(e).__name__}", f"{type(e).__name__}: {e}", {"basis": name}))
    # translation-invariant model whose cell holds a displaced oscillator
    for ncell in (2, 3):
        try:
            sho = ba.BasisSHO("v", float(rng.uniform(0.6, 1.4)), 3, x0=float(rng.uniform(0.3, 0.8)))
            spin = ba.BasisHalfSpin("s")
            cell = [spin, sho]
            w, g, j = float(rng.uniform(0.5, 1.5)), float(rng.uniform(0.2, 0.8)), float(rng.uniform(0.2, 0.8))
            local = [Op("sigma_z", "s", w), Op("x^2", "v", 0.5), Op("sigma_z x", ["s", "v"], g)]
            nonlocal_terms = [Op("x x", [(0, "v"), (1, "v")], j)]
            model = TI1DModel(cell, local, nonlocal_terms, ncell)
            out["cases"].append(f"ti-displaced/{ncell}/{k}")
            order = [bb.dof for bb in model.basis]
            dims = [bb.nbas for bb in model.basis]
            mats = {"sigma_z": np.asarray(spin.op_mat(Op("sigma_z", "s"))), "x": np.asarray(sho.op_mat(Op("x", "v"))), "x^2": np.asarray(sho.op_mat(Op("x^2", "v")))}

            def pos(cell_i, which):
                cands = [i for i, d in enumerate(order) if str(cell_i) in str(d) and which in str(d)]
                if len(cands) != 1:
                    raise KeyError((cell_i, which, order))
                return cands[0]

            def emb(pairs):
                full = [np.eye(d) for d in dims]
                for p_, m_ in pairs:
                    full[p_] = full[p_] @ m_
                o = np.eye(1)
                for m_ in full:
                    o = np.kron(o, m_)
                return o
            H = np.zeros((int(np.prod(dims)),) * 2)
            for i in range(ncell):
                H += w * emb([(pos(i, "s"), mats["sigma_z"])]) + 0.5 * emb([(pos(i, "v"), mats["x^2"])]) + g * emb([(pos(i, "s"), mats["sigma_z"]), (pos(i, "v"), mats["x"])])
                H += j * emb([(pos(i, "v"), mats["x"]), (pos((i + 1) % ncell, "v"), mats["x"])])
            got = np.asarray(Mpo(model).todense())
            if np.linalg.norm(got - H) > 1e-10 * (np.linalg.norm(H) + 1):
                out["viol"].append(("C16:ti:displaced-oscillator", f"translation-invariant Hamiltonian over cells with a displaced oscillator differs from the sum over cells by {np.linalg.norm(got - H):.2e}", {"ncell": ncell, "order": [str(d) for d in order]}))
        except Exception as e:
            out["viol"].append((f"C16:ti:displaced-raises:{type(e).__name__}", f"{type(e).__name__}: {e}", {"ncell": ncell}))
    return out


def run(ctx):
    big = ctx.tier != "quick"
    cfg = tlc.make_cfg(constants=dict(MaxMol=3, MaxModes=2, MaxCell=4 if not big else 5, MaxOff=4 if not big else 6), spec="Spec",
                       invariants=["HolsteinOnce", "TiInRange", "Emit"])
    r = tlc.run("ModelBuilders", cfg, mode="emit", timeout=600)
    ctx.add_tlc(r, "ModelBuilders parameter grid")
    if r["violated"]:
        ctx.violation(f"C16:spec:{r['violated']}", "ModelBuilders violates " + r["violated"], {"tlc": r.get("error_text", "")[:2000]})
    cases = list(enumerate(r["emitted"]))
    jobs = []
    results = []
    results += pmap(_sho_cases, [(ctx.seed, k) for k in range(8)], chunksize=1)
    results += pmap(_sine_cases, [(ctx.seed, k) for k in range(4)], chunksize=1)
    results += pmap(_spin_electron_cases, [0], chunksize=1)
    results += pmap(_copy_cases, [(ctx.seed, k) for k in range(2 if not big else 6)], chunksize=1)
    n = 16
    results += pmap(_builder_cases, [(cases[i::n], ctx.seed) for i in range(n) if cases[i::n]], chunksize=1)
    for st, o in results:
        if st != "ok":
            raise MachineryError("C16 worker failed: " + o)
        for c in o["cases"]:
            ctx.case(fingerprint=c, nontrivial=not c.endswith("/I"))
        for key, what, detail in o["viol"]:
            ctx.violation(key, what, detail)
    ctx.sample({"builder_case_from_TLC": r["emitted"][len(r["emitted"]) // 3]})
    ctx.sample({"symbol_case": "SHO nbas=3 omega=0.6 x0=0.45: op_mat('x^3') vs (x_big @ x_big @ x_big)[:3,:3]"})
    ctx.cov["rule"] = ("cases = (basis class, parameters, symbol) triples over the parameter grid (sizes 1..8, two frequencies, origins, grid ranges, DVR / general "
                       "power variants) with every supported symbol and every documented product word, plus every builder parameter combination enumerated by TLC "
                       "(Holstein: <=3 molecules x 0..2 modes x schemes 1-4 x open/periodic with different ground/excited frequencies; TI: <=4 cells x offsets 0..4); "
                       "non-trivial = not the identity symbol; distinct = distinct triple")
    ctx.assumptions += ["reference matrices: ladder operators in a basis 6 levels larger, truncated after the exact product (the documented top-level truncation)",
                        "sine-DVR reference: 400-point Gauss-Legendre quadrature of the analytic functions"]
