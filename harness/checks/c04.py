"""C04 — canonicalisation and lossless compression preserve the represented object.

MpHeap replays (shared driver with C03) own: isometry of non-centre sites when the spec advertises a canonical form,
no bond growth under gauge actions, exact caps after two opposite sweeps; additionally
  * a two-site universe (where check_left/right_canonical loops are shortest),
  * one-site chains and idempotence probes,
  * variational compression of operator x state converging to the exact product at sufficient bond.
The symmetry-blocked decomposition underneath (svd_qn) is modelled in SvdQn.tla and bound in C18.
"""
import numpy as np

from . import c03
from . import heap_common as hc
from ..common import pmap, MachineryError, bootstrap

LEVEL = "model_checking"
OWNED = ("C04",)
GAUGE_ACTIONS = ["Copy", "Scale", "ScaleInplace", "Add", "Apply", "MoveQnidx", "Canonicalise", "CanonicaliseStop", "EnsureLeft",
                 "EnsureRight", "CompressLossless", "CompressLosslessList"]


def _probe(args):
    bootstrap()
    from .. import states as st
    from renormalizer.mps import Mps, Mpo, MpDm
    from renormalizer.utils import CompressConfig, CompressCriteria
    seed, k = args
    out = {"cases": [], "viol": []}
    # ---- one-site chains: every gauge call is a no-op on the value and must not raise
    for fam in ("elec", "spin"):
        model, basis, alphas = st.chain_model(fam, 1, variant=k % 2)
        for kind in ("mps", "mpdm"):
            detail = {"probe": "one-site", "family": fam, "kind": kind, "k": k}
            try:
                m = st.random_mps(model, 1 if fam == "elec" else 0, 3, (seed, "c04-1site", k, fam))
                m = m.scale(1.7)
                obj = MpDm.from_mps(m) if kind == "mpdm" else m
                ref = st.dense(obj)
                for call in ("canonicalise", "canonicalise", "ensure_left_canonical", "ensure_right_canonical", "compress"):
                    getattr(obj, call)()
                    if np.linalg.norm(st.dense(obj) - ref) > 1e-12 * (np.linalg.norm(ref) + 1):
                        out["viol"].append((f"C04:one-site:{call}", f"{call}() on a one-site {kind} changed the value", detail))
                out["cases"].append(f"1site/{fam}/{kind}/{k}")
            except Exception as e:
                out["viol"].append((f"C04:one-site-raises:{kind}", f"gauge call on a one-site chain raised {type(e).__name__}: {e}", detail))
    # ---- idempotence + variational compression on a 4-site electron-phonon chain
    model, basis, alphas = st.chain_model("eph", 4, variant=k % 2)
    from .. import replay_heap as rh
    uni = rh.get_universe("eph", 4, "mps", 1, seed, 50 + k % 2)
    try:
        m = st.random_mps(uni.model, 1, 6, (seed, "c04-var", k)).scale(0.8)
        m.canonicalise()
        a1 = [x.copy() for x in st.arrays(m)]
        qn1 = (m.qnidx, m.to_right)
        m.canonicalise().canonicalise()
        # idempotence of a double sweep up to gauge: value and canonical form identical, bonds identical
        ref = st.dense(m)
        b1 = list(m.bond_dims)
        m.canonicalise().canonicalise()
        if np.linalg.norm(st.dense(m) - ref) > 1e-12 * (np.linalg.norm(ref) + 1) or list(m.bond_dims) != b1:
            out["viol"].append(("C04:idempotence", "repeating two opposite sweeps changed value or bonds", {"k": k}))
        out["cases"].append(f"idem/{k}")
        # variational compression of H|psi> with sufficient bond converges to apply
        m.ensure_left_canonical()
        exact = uni.dense_op["H"] @ st.dense(m)
        for method in ("1site", "2site"):
            mm = m.copy()
            mm.compress_config = CompressConfig(CompressCriteria.fixed, max_bonddim=32)
            mm.compress_config.vmethod = method.split("-")[0]
            mm.compress_config.vprocedure = [[32, 0.3]] * 4 + [[32, 0.0]] * 12
            mm.compress_config.vrtol = 1e-12
            if method == "2site-poor-guess":
                # a low-rank random initial guess and plain sweeps only: the bonds have to grow sweep by sweep, so the
                # convergence test must really compare successive sweeps (the configuration is read from the guess)
                g = st.random_mps(uni.model, 1, 2, (seed, "c04-var-guess", k))
                g.compress_config = mm.compress_config.copy()
                g.compress_config.vprocedure = [[32, 0.0]] * 16
                got = mm.variational_compress(uni.mpo["H"]["fresh"], guess=g)
            else:
                got = mm.variational_compress(uni.mpo["H"]["fresh"])
            err = np.linalg.norm(st.dense(got) - exact) / (np.linalg.norm(exact) + 1e-300)
            out["cases"].append(f"var/{method}/{k}")
            if err > 1e-6:
                out["viol"].append((f"C04:variational:{method}", f"variational_compress(H) with sufficient bond differs from H|psi> by relative {err:.2e}", {"k": k, "method": method}))
            if np.linalg.norm(st.dense(m) - ref) > 1e-10 * (np.linalg.norm(ref) + 1):
                out["viol"].append((f"C04:variational-disturbs-input:{method}", "variational_compress changed its input state", {"k": k}))
    except Exception as e:
        import traceback
        out["viol"].append(("C04:variational-raises", f"{type(e).__name__}: {e} {traceback.format_exc(limit=2)}", {"k": k}))
    # ---- the same on a longer chain from a rank-1 guess with plain sweeps only: the bonds of the result have to grow over
    # several sweeps (x2 per two-site sweep), so the convergence test has to compare SUCCESSIVE sweeps
    if k % 4 == 0:
        try:
            uni8 = rh.get_universe("elec", 8, "mps", 4, seed, 60 + k % 2)
            m8 = st.random_mps(uni8.model, 4, 6, (seed, "c04-var8", k))
            m8.ensure_left_canonical()
            exact = uni8.dense_op["H"] @ st.dense(m8)
            g = None
            for mg in (1, 2, 3):
                try:
                    g = st.random_mps(uni8.model, 4, mg, (seed, "c04-var8-guess", k, mg))
                    break
                except FloatingPointError:
                    continue          # Mps.random cannot populate the sector at this bond dimension
            if g is None:
                return out
            g.compress_config = CompressConfig(CompressCriteria.fixed, max_bonddim=32)
            g.compress_config.vmethod = "2site"
            g.compress_config.vprocedure = [[32, 0.0]] * 16
            g.compress_config.vrtol = 1e-12
            got = m8.variational_compress(uni8.mpo["H"]["fresh"], guess=g)
            err = np.linalg.norm(st.dense(got) - exact) / (np.linalg.norm(exact) + 1e-300)
            out["cases"].append(f"var8/{k}")
            if err > 1e-6:
                out["viol"].append(("C04:variational:2site-rank1-guess", f"variational_compress(H, guess of rank 1, 16 plain sweeps, bond 32) differs from H|psi> by relative {err:.2e}", {"k": k}))
        except Exception as e:
            import traceback
            out["viol"].append(("C04:variational8-raises", f"{type(e).__name__}: {e} {traceback.format_exc(limit=2)}", {"k": k}))
    return out


def run(ctx):
    c03.run(ctx, owned=OWNED, extra="c04")
    # two-site universe
    N = 2
    c2 = hc.consts(N, 3, GAUGE_ACTIONS, maxq=2)
    hc.design_run(ctx, hc.consts(N, 2, GAUGE_ACTIONS, maxq=2), "MpHeap N=2 depth 2 (gauge alphabet)")
    d2 = hc.emit_exhaustive(ctx, hc.consts(N, 2, GAUGE_ACTIONS, maxq=2), "N=2 depth 2")
    sim = hc.emit_simulate(ctx, hc.consts(N, 4, GAUGE_ACTIONS, maxq=2), 300 if ctx.tier == "quick" else 3000, "N=2 depth 4")
    for ui, kind in enumerate(("mps", "mpdm")):
        hc.replay(ctx, hc.sample(d2, 2500 if ctx.tier == "quick" else None, ctx.seed) + list(sim), ("elec", 2, kind, 1, ctx.seed, 20 + ui), OWNED, id_offset=2 * 10 ** 6)
    res = pmap(_probe, [(ctx.seed, k) for k in range(8 if ctx.tier == "quick" else 40)], chunksize=1)
    for st_, r in res:
        if st_ != "ok":
            raise MachineryError("C04 probe worker failed: " + r)
        for c in r["cases"]:
            ctx.case(fingerprint="probe/" + c, nontrivial=True)
        for key, what, detail in r["viol"]:
            ctx.violation(key, what, detail)
