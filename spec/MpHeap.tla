-------------------------------- MODULE MpHeap --------------------------------
(* API-level abstract machine for chain objects  (renormalizer/mps/mp.py, mps.py, mpo.py, mpdm.py).

   State: a heap of handles.  Each live handle has
     val      the ABSTRACT VALUE  coeff * todense(obj)  as a formal Gaussian-integer combination of monomials
              << <<op_k, ..., op_1>>, g >>  =  op_k ... op_1 applied to generator g        (a "bag")
     Q        total quantum number (qntot)            c        position of the quantum-number centre (qnidx)
     toRight  sweep direction                          form     "left" | "right" | "offcentre" | "none"
     sw       number of consecutive full gauge sweeps (two opposite sweeps => bonds at their exact caps)
     cplx     dtype is complex
   One action = one public call (its return is the only linearisation point of a sequential library).
   The metadata transitions mirror the code line by line (comments cite it); the value transitions are the
   algebraic meaning the property C03 demands.  The harness interprets `val` densely and compares after EVERY
   action, for EVERY live handle: value, Q, labels valid for the stored (c), (c, toRight), isometry when form is
   left/right, bond growth, frame.

   Gauge classes of actions (section 4.1 of DESIGN.md):
     gauge-agnostic   Copy Scale ScaleInplace Add Sub Apply Conj ToComplexInplace MoveQnidx EnsureLeft EnsureRight
     gauge-asserting  Canonicalise CompressLossless   (library asserts; transcribed as guards)                  *)
EXTENDS Integers, Sequences, FiniteSets, TLC, Json
CONSTANTS N,          \* sites
          Handles,    \* e.g. {1,2,3}
          NGens,      \* generators 1..NGens are live initially (handle i holds generator i)
          MaxOps,     \* longest operator word
          MaxCoef,    \* bound on |re|, |im| of coefficients
          Depth,      \* number of actions explored
          Sector0,    \* sector of every generator
          FreshForm,  \* form of a freshly constructed generator: "left" for Mps.random, "none" for Mpo(model, terms)
          MinQ, MaxQ, \* sectors MinQ..MaxQ exist (MinQ <- NegOne for operator universes: a cfg cannot hold negative numbers)
          Alphabet    \* subset of action names enabled in this configuration

Ops == {"H", "Cr", "An"}                         \* Hamiltonian-like (charge 0), creation-like (+1), annihilation-like (-1)
Charge(o) == IF o = "Cr" THEN 1 ELSE IF o = "An" THEN -1 ELSE 0
OpGauges == {"fresh", "cano1", "moved"}         \* representation state of the operator operand of Apply
RECURSIVE SumCharge(_)
SumCharge(s) == IF s = <<>> THEN 0 ELSE Charge(Head(s)) + SumCharge(Tail(s))
NegOne == 0 - 1
NegTwo == 0 - 2
\* generator ids NGens+1..2*NGens denote the Hermitian conjugates of generators 1..NGens (operator universes only)
GenCharge(g) == IF g <= NGens THEN Sector0 ELSE 0 - Sector0
MonoCharge(m) == GenCharge(m[2]) + SumCharge(m[1])

\* ---- Gaussian-integer bags: sets of <<mono, re, im>> with distinct monos, (re,im) # (0,0)
Re(B, m) == IF \E p \in B : p[1] = m THEN (CHOOSE p \in B : p[1] = m)[2] ELSE 0
Im(B, m) == IF \E p \in B : p[1] = m THEN (CHOOSE p \in B : p[1] = m)[3] ELSE 0
Supp(B) == {p[1] : p \in B}
Mk(ms, re(_), im(_)) == {<<m, re(m), im(m)>> : m \in {x \in ms : re(x) # 0 \/ im(x) # 0}}
BAdd(B1, B2) == Mk(Supp(B1) \cup Supp(B2), LAMBDA m : Re(B1, m) + Re(B2, m), LAMBDA m : Im(B1, m) + Im(B2, m))
\* scalars as <<a, b>> = a + i b
BScale(B, k) == {<<p[1], k[1] * p[2] - k[2] * p[3], k[1] * p[3] + k[2] * p[2]>> : p \in B}
BConj(B) == {<<p[1], p[2], 0 - p[3]>> : p \in B}          \* generators and operators are real
BApply(B, o) == {<< <<Append(p[1][1], o), p[1][2]>>, p[2], p[3]>> : p \in B}
Small(B) == \A p \in B : p[2] \in (0 - MaxCoef)..MaxCoef /\ p[3] \in (0 - MaxCoef)..MaxCoef
Scalars == {<<0 - 1, 0>>, <<2, 0>>, <<0, 1>>}
IsCplx(k) == k[2] # 0

VARIABLES live, val, Q, c, toRight, form, sw, cplx, steps, hist, init0
vars == <<live, val, Q, c, toRight, form, sw, cplx, steps, hist, init0>>

\* ---- initial heap: generator i in handle i, in every constructor-reachable representation state
\*   "fresh"  Mps.random:            centre N-1, sweeping left, left-canonical
\*   "cano1"  + canonicalise():      centre 0, sweeping right, right-canonical
\*   "moved k" + move_qnidx(k):      label centre k, orthogonality centre still N-1
InitGauges == {<<N - 1, FALSE, FreshForm, 0>>, <<0, TRUE, "right", 1>>}
              \cup {<<k, FALSE, IF FreshForm = "none" THEN "none" ELSE "offcentre", 0>> : k \in 0..(N - 2)}
Init == /\ live = 1..NGens
        /\ val = [h \in Handles |-> IF h \in 1..NGens THEN {<< <<<<>>, h>>, 1, 0 >>} ELSE {}]
        /\ Q = [h \in Handles |-> IF h \in 1..NGens THEN Sector0 ELSE 0]
        /\ \E g \in [1..NGens -> InitGauges] :
              /\ c = [h \in Handles |-> IF h \in 1..NGens THEN g[h][1] ELSE 0]
              /\ toRight = [h \in Handles |-> IF h \in 1..NGens THEN g[h][2] ELSE FALSE]
              /\ form = [h \in Handles |-> IF h \in 1..NGens THEN g[h][3] ELSE "none"]
              /\ sw = [h \in Handles |-> IF h \in 1..NGens THEN g[h][4] ELSE 0]
              /\ init0 = [h \in 1..NGens |-> [c |-> g[h][1], toRight |-> g[h][2], form |-> g[h][3], sw |-> g[h][4]]]
        /\ cplx = [h \in Handles |-> FALSE]
        /\ steps = 0 /\ hist = <<>>

Snap(h, v, q, cc, tr, f, s, z) == [h |-> h, val |-> v, Q |-> q, c |-> cc, toRight |-> tr, form |-> f, sw |-> s, cplx |-> z]
Set(h, v, q, cc, tr, f, s, z, ev) ==
  /\ val' = [val EXCEPT ![h] = v] /\ Q' = [Q EXCEPT ![h] = q] /\ c' = [c EXCEPT ![h] = cc]
  /\ toRight' = [toRight EXCEPT ![h] = tr] /\ form' = [form EXCEPT ![h] = f] /\ sw' = [sw EXCEPT ![h] = s]
  /\ cplx' = [cplx EXCEPT ![h] = z]
  /\ live' = live \cup {h} /\ steps' = steps + 1 /\ UNCHANGED init0
  /\ hist' = Append(hist, [ev EXCEPT !.post = Snap(h, v, q, cc, tr, f, s, z)])
Ev(a, x, y, r, o, og, k) == [a |-> a, x |-> x, y |-> y, r |-> r, o |-> o, og |-> og, k |-> k, post |-> <<>>]
\* symmetry reduction: results go to the first free slot; when the heap is full any handle may be overwritten
Free == IF Handles \ live = {} THEN Handles ELSE {CHOOSE h \in Handles \ live : \A g \in Handles \ live : h <= g}
On(a) == a \in Alphabet

\* MatrixProduct.copy (mp.py:1025)
Copy(x, h) == /\ On("Copy") /\ x \in live /\ h \in Free /\ h # x
              /\ Set(h, val[x], Q[x], c[x], toRight[x], form[x], sw[x], cplx[x], Ev("Copy", x, 0, h, "", "", <<0, 0>>))
\* MatrixProduct.scale(val, inplace=True) (mp.py:984): multiplies the tensor at qnidx; complex val promotes dtype
ScaleInplace(x, k) == /\ On("ScaleInplace") /\ x \in live /\ Small(BScale(val[x], k))
                      /\ Set(x, BScale(val[x], k), Q[x], c[x], toRight[x], form[x], sw[x], cplx[x] \/ IsCplx(k),
                             Ev("ScaleInplace", x, 0, x, "", "", k))
Scale(x, k, h) == /\ On("Scale") /\ x \in live /\ h \in Free /\ h # x /\ Small(BScale(val[x], k))
                  /\ Set(h, BScale(val[x], k), Q[x], c[x], toRight[x], form[x], sw[x], cplx[x] \/ IsCplx(k),
                         Ev("Scale", x, 0, h, "", "", k))
\* MatrixProduct.add (mp.py:374): centre and direction of the result are those of `other`; dtype promoted
Add(x, y, h) == /\ On("Add") /\ x \in live /\ y \in live /\ Q[x] = Q[y] /\ h \in Free /\ h \notin {x, y}
                /\ Small(BAdd(val[x], val[y])) /\ BAdd(val[x], val[y]) # {}
                /\ Set(h, BAdd(val[x], val[y]), Q[x], c[y], toRight[y], "none", 0, cplx[x] \/ cplx[y],
                       Ev("Add", x, y, h, "", "", <<0, 0>>))
\* __sub__ = add(other.scale(-1))
Sub(x, y, h) == /\ On("Sub") /\ x \in live /\ y \in live /\ Q[x] = Q[y] /\ h \in Free /\ h \notin {x, y}
                /\ LET v == BAdd(val[x], BScale(val[y], <<0 - 1, 0>>)) IN
                   /\ Small(v) /\ v # {}
                   /\ Set(h, v, Q[x], c[y], toRight[y], "none", 0, cplx[x] \/ cplx[y], Ev("Sub", x, y, h, "", "", <<0, 0>>))
\* Mpo.apply (mpo.py:331): result keeps the state's centre and direction; total charge shifts by the operator's
Apply(o, og, x, h) == /\ On("Apply") /\ x \in live /\ h \in Free /\ h # x
                      /\ \A p \in val[x] : Len(p[1][1]) < MaxOps
                      /\ Q[x] + Charge(o) \in MinQ..MaxQ
                      /\ Set(h, BApply(val[x], o), Q[x] + Charge(o), c[x], toRight[x], "none", 0, cplx[x],
                             Ev("Apply", x, 0, h, o, og, <<0, 0>>))
\* MatrixProduct.conj (mp.py:924) + Mps.conj: entrywise conjugate, prefactor conjugated
Conj(x, h) == /\ On("Conj") /\ x \in live /\ h \in Free /\ h # x
              /\ Set(h, BConj(val[x]), Q[x], c[x], toRight[x], form[x], sw[x], cplx[x], Ev("Conj", x, 0, h, "", "", <<0, 0>>))
\* Mpo.conj_trans (mpo.py:456): Hermitian conjugate.  (o_k..o_1 g)^+ = g^+ o_1^+ .. o_k^+ is a RIGHT product, which the
\* left-application monomials cannot express, so the action is enabled on combinations of bare generators only.
BDagger(B) == {<< <<p[1][1], IF p[1][2] <= NGens THEN p[1][2] + NGens ELSE p[1][2] - NGens>>, p[2], 0 - p[3]>> : p \in B}
ConjTrans(x, h) == /\ On("ConjTrans") /\ x \in live /\ h \in Free /\ h # x
                   /\ \A p \in val[x] : p[1][1] = <<>>
                   /\ Set(h, BDagger(val[x]), 0 - Q[x], c[x], toRight[x], "none", 0, cplx[x], Ev("ConjTrans", x, 0, h, "", "", <<0, 0>>))
ToComplexInplace(x) == /\ On("ToComplexInplace") /\ x \in live /\ ~cplx[x]
                       /\ Set(x, val[x], Q[x], c[x], toRight[x], form[x], sw[x], TRUE, Ev("ToComplexInplace", x, 0, x, "", "", <<0, 0>>))
\* MatrixProduct.move_qnidx (mp.py:159): labels re-expressed for the new centre, tensors untouched
MoveQnidx(x, k) == /\ On("MoveQnidx") /\ x \in live /\ k # c[x]
                   /\ Set(x, val[x], Q[x], k, toRight[x], IF form[x] = "none" THEN "none" ELSE "offcentre", sw[x], cplx[x],
                          Ev("MoveQnidx", x, 0, x, "", "", <<k, 0>>))
\* canonicalise() (mp.py:910) asserts the centre sits at the start of the sweep; ends at the other end, direction flipped
CanoEnabled(x) == (toRight[x] /\ c[x] = 0) \/ (~toRight[x] /\ c[x] = N - 1)
Canonicalise(x) == /\ On("Canonicalise") /\ x \in live /\ CanoEnabled(x) /\ N > 1
                   /\ Set(x, val[x], Q[x], IF toRight[x] THEN N - 1 ELSE 0, ~toRight[x],
                          IF toRight[x] THEN "left" ELSE "right", IF sw[x] >= 1 THEN 2 ELSE 1, cplx[x],
                          Ev("Canonicalise", x, 0, x, "", "", <<0, 0>>))
\* canonicalise(stop_idx=k): partial sweep, centre stops at k; the direction flips only if the sweep reached the end
CanonicaliseStop(x, k) == /\ On("CanonicaliseStop") /\ x \in live /\ CanoEnabled(x)
                          /\ (toRight[x] => k >= c[x]) /\ (~toRight[x] => k <= c[x])
                          /\ LET full == N > 1 /\ ((toRight[x] /\ k = N - 1) \/ (~toRight[x] /\ k = 0))
                                 noop == (k = c[x]) IN
                             Set(x, val[x], Q[x], k, IF full THEN ~toRight[x] ELSE toRight[x],
                                 IF full THEN (IF toRight[x] THEN "left" ELSE "right") ELSE IF noop THEN form[x] ELSE "mixed",
                                 IF full THEN (IF sw[x] >= 1 THEN 2 ELSE 1) ELSE IF noop THEN sw[x] ELSE 0, cplx[x],
                                 Ev("CanonicaliseStop", x, 0, x, "", "", <<k, 0>>))
\* ensure_left_canonical (mp.py:206): no-op iff already (to_right = F, centre N-1, left-canonical); else one right sweep
EnsureLeft(x) == /\ On("EnsureLeft") /\ x \in live
                 /\ LET noop == (~toRight[x] /\ c[x] = N - 1 /\ form[x] = "left") IN
                    Set(x, val[x], Q[x], N - 1, FALSE, "left", IF noop THEN sw[x] ELSE (IF sw[x] >= 1 /\ toRight[x] /\ c[x] = 0 THEN 2 ELSE 1), cplx[x],
                        Ev("EnsureLeft", x, 0, x, "", "", <<0, 0>>))
EnsureRight(x) == /\ On("EnsureRight") /\ x \in live
                  /\ LET noop == (toRight[x] /\ c[x] = 0 /\ form[x] = "right") IN
                     Set(x, val[x], Q[x], 0, TRUE, "right", IF noop THEN sw[x] ELSE (IF sw[x] >= 1 /\ ~toRight[x] /\ c[x] = N - 1 THEN 2 ELSE 1), cplx[x],
                         Ev("EnsureRight", x, 0, x, "", "", <<0, 0>>))
\* compress with a bond limit above every rank: value unchanged; needs the canonical form matching the centre (asserted)
CompressLossless(x) == /\ On("CompressLossless") /\ x \in live /\ CanoEnabled(x) /\ N > 1
                       /\ ((c[x] = N - 1 /\ form[x] = "left") \/ (c[x] = 0 /\ form[x] = "right"))
                       /\ Set(x, val[x], Q[x], IF toRight[x] THEN N - 1 ELSE 0, ~toRight[x],
                              IF toRight[x] THEN "left" ELSE "right", 2, cplx[x],
                              Ev("CompressLossless", x, 0, x, "", "", <<0, 0>>))

\* compress(temp_m_trunc=[current bond dimensions]): per-bond limit list, lossless by construction (mp.py:437, list branch)
CompressLosslessList(x) == /\ On("CompressLosslessList") /\ x \in live /\ CanoEnabled(x) /\ N > 1
                           /\ ((c[x] = N - 1 /\ form[x] = "left") \/ (c[x] = 0 /\ form[x] = "right"))
                           /\ Set(x, val[x], Q[x], IF toRight[x] THEN N - 1 ELSE 0, ~toRight[x],
                                  IF toRight[x] THEN "left" ELSE "right", 2, cplx[x],
                                  Ev("CompressLosslessList", x, 0, x, "", "", <<0, 0>>))

Next == /\ steps < Depth
        /\ \/ \E x, h \in Handles : Copy(x, h) \/ Conj(x, h) \/ ConjTrans(x, h)
           \/ \E x \in Handles, k \in Scalars : ScaleInplace(x, k)
           \/ \E x, h \in Handles, k \in Scalars : Scale(x, k, h)
           \/ \E x, y, h \in Handles : Add(x, y, h) \/ Sub(x, y, h)
           \/ \E o \in Ops, og \in OpGauges, x, h \in Handles : Apply(o, og, x, h)
           \/ \E x \in Handles, k \in 0..(N - 1) : MoveQnidx(x, k) \/ CanonicaliseStop(x, k)
           \/ \E x \in Handles : Canonicalise(x) \/ EnsureLeft(x) \/ EnsureRight(x) \/ CompressLossless(x) \/ CompressLosslessList(x) \/ ToComplexInplace(x)
Spec == Init /\ [][Next]_vars

\* ------------------------------------------------------------------ invariants
\* C06: every monomial of a value lies in the sector the handle advertises
SectorInv == \A h \in live : \A p \in val[h] : MonoCharge(p[1]) = Q[h]
\* the advertised canonical form is consistent with centre and direction
GaugeInv == \A h \in live : /\ (form[h] = "left" => c[h] = N - 1 /\ ~toRight[h])
                            /\ (form[h] = "right" => c[h] = 0 /\ toRight[h])
                            /\ c[h] \in 0..(N - 1)
\* C13 frame: only the handle named as result may change its value
Frame == [][\A h \in Handles : (h \in live /\ val'[h] # val[h]) => hist'[Len(hist')].r = h]_vars
\* in-place actions other than scaling never change the value
ValuePreserving == [][(steps' = steps + 1 /\ hist'[Len(hist')].a \in {"MoveQnidx", "Canonicalise", "CanonicaliseStop", "EnsureLeft",
                                                                     "EnsureRight", "CompressLossless", "CompressLosslessList", "ToComplexInplace"})
                        => val' = val]_vars
\* algebra in normal form: x + x.scale(-1) is never representable (guarded), scale by i four times is the identity, ...
NoZero == \A h \in live : val[h] # {}

\* ------------------------------------------------------------------ emission (spec -> code)
\* -simulate evaluates invariants on every generated successor, i.e. on ~100 leaves per random prefix: keep one in SimKeep
EmitLeafSim == (steps = Depth /\ RandomElement(1..100) = 1) => PrintT(<<"EMIT", ToJson([init |-> init0, hist |-> hist])>>)
EmitLeaf == (steps = Depth) => PrintT(<<"EMIT", ToJson([init |-> init0, hist |-> hist])>>)
=============================================================================
