"""C17 — fermionic Hamiltonians and site reordering keep the physics unchanged.

 A. JordanWigner.tla: for every string a+_p a_q, a+_p a+_q a_r a_s on 4 spin orbitals and every occupation state TLC checks
    that the Jordan-Wigner image acts like the anticommuting string (sign included), that the transcribed simplify_op
    preserves the operator and reaches the normal form, and that the two-site exchange rule of table_row_swapped_jw
    is the fermionic swap on every pair of local operators.  Every string / rule is then put through the REAL
    simplify_op / table_row_swapped_jw and compared symbol by symbol (exact).
 B. qc_model MPOs (1-4 spatial orbitals, random / sparse / vanishing-block symmetric integrals, stacked or flat, with
    and without quantum numbers) against an independent matrix built from anticommuting operators; Hermiticity;
    N_alpha / N_beta conservation.
 C. exchange of neighbouring sites of an existing operator with and without the Jordan-Wigner correction: the
    operator must be the same fermionic Hamiltonian in the new orbital order (resp. the plain permutation); spectrum.
 D. on-the-fly swapping inside the optimiser (all criteria): reported energies stay variational, the returned state,
    permuted back, has the reported energy with respect to the ORIGINAL Hamiltonian.
"""
import itertools
import json

import numpy as np

from .. import tlc
from ..common import pmap, MachineryError, bootstrap, rng_for, reseed_global

LEVEL = "model_checking"


# ---------------------------------------------------------------------------------- independent fermions

def fermi_ops(n):
    """annihilation operators a_p (p = 0..n-1) on the occupation basis |n_0 n_1 ...> (n_0 slowest), index 1 = occupied."""
    dim = 2 ** n
    ops = []
    for p in range(n):
        m = np.zeros((dim, dim))
        for s in range(dim):
            bits = [(s >> (n - 1 - k)) & 1 for k in range(n)]
            if bits[p] == 1:
                sign = (-1) ** sum(bits[:p])
                b2 = list(bits)
                b2[p] = 0
                t = sum(b << (n - 1 - k) for k, b in enumerate(b2))
                m[t, s] = sign
        ops.append(m)
    return ops


def fermi_ham(h1, h2, order=None):
    """sum h1[p,q] a+_p a_q + sum h2[p,q,r,s] a+_p a+_q a_r a_s ; `order[k]` = orbital sitting at position k."""
    n = h1.shape[0]
    a = fermi_ops(n)
    if order is not None:
        pos = {orb: k for k, orb in enumerate(order)}
        a = [a[pos[p]] for p in range(n)]
    H = np.zeros((2 ** n, 2 ** n))
    for p, q in np.argwhere(h1 != 0):
        H += h1[p, q] * a[p].T @ a[q]
    for p, q, r, s in np.argwhere(h2 != 0):
        H += h2[p, q, r, s] * a[p].T @ a[q].T @ a[r] @ a[s]
    return H


def random_integrals(nspatial, rng, kind):
    n = nspatial
    h = rng.normal(size=(n, n))
    h = (h + h.T) / 2
    eri = rng.normal(size=(n, n, n, n))
    eri = eri + eri.transpose(1, 0, 2, 3)
    eri = eri + eri.transpose(0, 1, 3, 2)
    eri = eri + eri.transpose(2, 3, 0, 1)
    if kind == "sparse":
        h = h * (rng.random(h.shape) < 0.5)
        h = np.triu(h) + np.triu(h, 1).T
        mask = rng.random(eri.shape) < 0.3
        mask = mask | mask.transpose(1, 0, 2, 3) | mask.transpose(0, 1, 3, 2) | mask.transpose(2, 3, 0, 1)
        mask = mask & mask.transpose(1, 0, 2, 3) & mask.transpose(0, 1, 3, 2) & mask.transpose(2, 3, 0, 1)
        eri = eri * mask
    elif kind == "zero-h":
        h = np.zeros_like(h)
    elif kind == "zero-row":
        h[0, :] = 0
        h[:, 0] = 0
    elif kind == "zero-eri":
        eri = np.zeros_like(eri)
    return h, eri


def _bind_strings(args):
    bootstrap()
    from renormalizer.model import h_qc
    from renormalizer.model.op import Op
    items, M = args
    viol = []
    a_ops, a_dag = h_qc.generate_ladder_operator(M)
    for e in items:
        ops = [(a_dag if k == "c" else a_ops)[p] for k, p in e["str"]]
        for conserve in (True, False):
            try:
                res = h_qc.simplify_op(Op.product(ops), M, conserve_qn=conserve)
            except Exception as ex:
                viol.append(("C17:simplify_op:raises", f"simplify_op raised {type(ex).__name__}: {ex}", {"case": e, "conserve_qn": conserve}))
                continue
            got = [[s, int(d)] for s, d in zip(res.split_symbol, res.dofs)]
            if got != [list(x) for x in e["simplified"]] or abs(res.factor - e["sign"]) > 0:
                viol.append(("C17:simplify_op:mismatch", f"simplify_op returned {got} with factor {res.factor}; the specification gives {e['simplified']} with sign {e['sign']}",
                             {"case": e, "conserve_qn": conserve}))
            if conserve:
                # quantum numbers: alpha (even orbital) / beta (odd) electron number change per symbol
                for s, d, q in zip(res.split_symbol, res.dofs, res.qn_list):
                    want = {"+": -1, "-": 1, "Z": 0}[s]
                    exp = [want, 0] if d % 2 == 0 else [0, want]
                    if list(np.asarray(q).reshape(-1)) != exp:
                        viol.append(("C17:simplify_op:qn", f"symbol {s} on orbital {d} carries quantum number {q}, expected {exp}", {"case": e}))
                        break
    return viol


def _bind_rules(args):
    bootstrap()
    from renormalizer.mps.symbolic_mpo import table_row_swapped_jw
    from renormalizer.model.op import Op
    rules = args
    viol = []
    for naming in ("sigma", "alias"):
        name = {"Z": "sigma_z", "+": "sigma_+", "-": "sigma_-"} if naming == "sigma" else {"Z": "Z", "+": "+", "-": "-"}

        def mk(w, dof):
            if not w:
                return Op.identity(dof)
            return Op(" ".join(name[s] for s in w), [dof] * len(w), qn=[0] * len(w))

        def back(op):
            if op.is_identity:
                return []
            inv = {v: k for k, v in name.items()}
            inv.update({"sigma_z": "Z", "sigma_+": "+", "sigma_-": "-", "Z": "Z", "+": "+", "-": "-"})
            return [inv[s] for s in op.split_symbol]
        for r in rules:
            w1, w2 = r["w1"], r["w2"]
            if w1.count("+") > 1 or w1.count("-") > 1:
                continue       # the code asserts at most one ladder symbol OF EACH KIND on the first site (number operators are allowed)
            prim = [Op.identity(0), Op.identity(1), mk(w1, 0), mk(w2, 1)]
            op2idx = {op: i for i, op in enumerate(prim)}
            try:
                row, coeff = table_row_swapped_jw([0, 2, 3, 0, 0], prim, op2idx)
            except AssertionError:
                continue
            except Exception as ex:
                viol.append((f"C17:swap-rule:raises:{naming}", f"table_row_swapped_jw raised {type(ex).__name__}: {ex}", {"rule": r}))
                continue
            n1, n2 = back(prim[row[1]]), back(prim[row[2]])
            if n1 != list(r["new1"]) or n2 != list(r["new2"]) or coeff != r["sign"]:
                viol.append((f"C17:swap-rule:mismatch:{naming}-symbols",
                             f"exchange rule for ({w1},{w2}) written with {'sigma_*' if naming == 'sigma' else 'the aliases Z,+,- that qc_model emits'}: "
                             f"code gives ({n1},{n2}) * {coeff}, the fermionic swap needs ({r['new1']},{r['new2']}) * {r['sign']}", {"rule": r, "naming": naming}))
    return viol


def _qc_cases(args):
    bootstrap()
    from renormalizer.model import h_qc, Model
    from renormalizer.mps import Mpo
    seed, k, tier = args
    out = {"cases": [], "viol": []}
    rng = rng_for(seed, "c17qc", k)
    kinds = ["random", "sparse", "zero-h", "zero-row", "zero-eri"]
    for nsp in ((1, 2, 3) if tier == "quick" else (1, 2, 3, 4)):
        kind = kinds[(k + nsp) % len(kinds)]
        h, eri = random_integrals(nsp, rng, kind)
        sh, aseri = h_qc.int_to_h(h, eri)
        ref = fermi_ham(sh, aseri)
        n = 2 * nsp
        na = sum(fermi_ops(n)[p].T @ fermi_ops(n)[p] for p in range(0, n, 2))
        nb = sum(fermi_ops(n)[p].T @ fermi_ops(n)[p] for p in range(1, n, 2))
        for stacked in (False, True):
            for conserve in (True, False):
                detail = {"nspatial": nsp, "integrals": kind, "stacked": stacked, "conserve_qn": conserve, "k": k}
                out["cases"].append(json.dumps(detail))
                try:
                    basis, terms = h_qc.qc_model(sh, aseri, stacked=stacked, conserve_qn=conserve)
                    model = Model(basis, [])
                    if stacked:
                        got = sum(Mpo(model, t, algo="Hopcroft-Karp").todense() for t in terms if len(t) > 0)
                    else:
                        if not terms:
                            continue
                        got = Mpo(model, terms, algo="qr" if k % 2 else "Hopcroft-Karp").todense()
                except Exception as ex:
                    out["viol"].append((f"C17:qc_model:raises:{'stacked' if stacked else 'flat'}", f"{type(ex).__name__}: {ex}", detail))
                    continue
                got = np.asarray(got)
                if got.ndim == 0:
                    continue          # no term at all (all integrals vanish)
                if np.linalg.norm(got - ref) > 1e-9 * (np.linalg.norm(ref) + 1):
                    out["viol"].append((f"C17:qc_model:fermionic-matrix:{'stacked' if stacked else 'flat'}",
                                        f"Jordan-Wigner MPO differs from the second-quantised Hamiltonian by {np.linalg.norm(got - ref):.2e}", detail))
                    continue
                if np.linalg.norm(ref - ref.T) < 1e-12 and np.linalg.norm(got - got.conj().T) > 1e-9 * (np.linalg.norm(got) + 1):
                    out["viol"].append(("C17:qc_model:hermitian", "qc Hamiltonian not Hermitian for symmetric integrals", detail))
                if np.linalg.norm(got @ na - na @ got) > 1e-9 * (np.linalg.norm(got) + 1) or np.linalg.norm(got @ nb - nb @ got) > 1e-9 * (np.linalg.norm(got) + 1):
                    out["viol"].append(("C17:qc_model:number-conservation", "qc Hamiltonian does not commute with N_alpha / N_beta", detail))
        # ---- C: swaps of an existing operator
        if nsp >= 2:
            basis, terms = h_qc.qc_model(sh, aseri, stacked=False, conserve_qn=True)
            if not terms:
                continue
            for swap_jw in (False, True):
                for algo in ("Hopcroft-Karp", "qr"):
                    seqs = [(i,) for i in range(n - 1)] + [(i, j) for i in range(n - 1) for j in range(n - 1) if (i + j + k) % 3 == 0]
                    for seq in seqs[: (6 if tier == "quick" else 40)]:
                        detail = {"nspatial": nsp, "integrals": kind, "swap_jw": swap_jw, "algo": algo, "swaps": list(seq), "k": k}
                        out["cases"].append(json.dumps(detail))
                        try:
                            mpo = Mpo(Model(list(basis), []), terms, algo=algo)
                            H0 = np.asarray(mpo.todense())
                            order = list(range(n))
                            cur = list(basis)
                            for i in seq:
                                order[i], order[i + 1] = order[i + 1], order[i]
                                cur[i], cur[i + 1] = cur[i + 1], cur[i]
                                mpo.try_swap_site(Model(list(cur), []), swap_jw=swap_jw, algo=algo)
                            got = np.asarray(mpo.todense())
                        except Exception as ex:
                            cause = "consistency-check-tolerance" if (isinstance(ex, AssertionError) and "Not equal to tolerance" in str(ex)) else type(ex).__name__
                            out["viol"].append((f"C17:swap:raises:{'jw' if swap_jw else 'plain'}:{algo}:{cause}", f"try_swap_site sequence {seq} raised {type(ex).__name__}: {str(ex)[:300]}", detail))
                            continue
                        if swap_jw:
                            ref2 = fermi_ham(sh, aseri, order=order)
                            what = "the fermionic Hamiltonian in the exchanged orbital order"
                        else:
                            from ..concretize import perm_matrix
                            P = perm_matrix([2] * n, order)
                            ref2 = P @ H0 @ P.T
                            what = "the permuted operator"
                        if np.linalg.norm(got - ref2) > 1e-9 * (np.linalg.norm(ref2) + 1):
                            cls = "jw" if swap_jw else "plain"
                            out["viol"].append((f"C17:swap:operator:{cls}", f"after exchanging sites {seq} (swap_jw={swap_jw}) the operator differs from {what} by {np.linalg.norm(got - ref2):.2e}", detail))
                            continue
                        ev0, ev1 = np.linalg.eigvalsh((H0 + H0.T) / 2), np.linalg.eigvalsh((got + got.conj().T) / 2)
                        if np.linalg.norm(ev0 - ev1) > 1e-8 * (np.linalg.norm(ev0) + 1):
                            out["viol"].append(("C17:swap:spectrum", "spectrum changed by the site exchange", detail))
                        # the exchanged operator must remain a usable operator: applied to a state of the exchanged model
                        try:
                            from renormalizer.mps import Mps
                            from .. import states as st
                            mdl = mpo.model
                            reseed_global(seed, "c17-apply", k, str(seq))
                            try:
                                psi = Mps.random(mdl, np.array([1, 1]), 4, 1.0)
                            except FloatingPointError:
                                continue          # the sector cannot be populated on this tiny model: no state to apply to
                            phi = mpo.apply(psi)
                            v = st.dense(psi).reshape(-1)
                            d_ = np.linalg.norm(st.dense(phi).reshape(-1) - got @ v)
                            if d_ > 1e-9 * (np.linalg.norm(got @ v) + 1):
                                out["viol"].append(("C17:swap:apply-after-swap:value", f"(exchanged operator).apply(psi) differs from the dense product by {d_:.2e}", detail))
                        except Exception as ex:
                            out["viol"].append((f"C17:swap:apply-after-swap:raises:{type(ex).__name__}", f"the operator returned by try_swap_site cannot be applied to a state: {type(ex).__name__}: {str(ex)[:200]}", detail))
    return out


def _ofs_cases(args):
    bootstrap()
    from renormalizer.model import h_qc, Model, Op
    from renormalizer.mps import Mpo, Mps
    from renormalizer.mps.gs import optimize_mps
    from renormalizer.utils import CompressConfig, CompressCriteria
    from renormalizer.utils.configs import OFS
    from .. import states as st
    from ..concretize import perm_matrix
    seed, k, tier = args
    out = {"cases": [], "viol": []}
    rng = rng_for(seed, "c17ofs", k)
    crits = [OFS.ofs_s, OFS.ofs_d, OFS.ofs_ds, OFS.ofs_debug]
    ofs = crits[k % 4]
    which = ["spin", "qc", "qc-jw"][k % 3]
    try:
        if which == "spin":
            n = 5
            basis, alphas = __import__("harness.concretize", fromlist=["x"]).make_family("spin", n, k % 2)
            terms = []
            for i in range(n):
                for j in range(i + 1, n):
                    if rng.random() < 0.7:
                        g = float(rng.uniform(-1, 1))
                        terms += [Op("sigma_x sigma_x", [basis[i].dof, basis[j].dof], g), Op("sigma_z sigma_z", [basis[i].dof, basis[j].dof], g * 0.5)]
                terms.append(Op("sigma_z", basis[i].dof, float(rng.uniform(-1, 1))))
            qntot = 0
            swap_jw = False
        else:
            nsp = 2
            h, eri = random_integrals(nsp, rng, "random")
            sh, aseri = h_qc.int_to_h(h, eri)
            basis, terms = h_qc.qc_model(sh, aseri)
            qntot = np.array([1, 1])
            swap_jw = which == "qc-jw"
            n = 4
        model = Model(list(basis), terms)
        mpo = Mpo(model, algo="Hopcroft-Karp")
        H = np.asarray(mpo.todense())
        mask = st.sector_projector(basis, qntot)
        e_exact = np.linalg.eigvalsh(((H + H.conj().T) / 2)[np.ix_(mask, mask)])[0]
        M = 16
        reseed_global(seed, "ofs", k)
        mps = Mps.random(model, qntot, M, percent=1.0)
        mps.optimize_config.method = "2site"
        cc = lambda pct: [CompressConfig(CompressCriteria.fixed, max_bonddim=M, ofs=ofs, ofs_swap_jw=swap_jw), pct]
        mps.optimize_config.procedure = [cc(0.4), cc(0.2), cc(0), cc(0), cc(0), cc(0)]
        detail = {"model": which, "ofs": ofs.name, "swap_jw": swap_jw, "k": k}
        out["cases"].append(json.dumps(detail))
        energies, res = optimize_mps(mps, mpo)
        if any(e < e_exact - 1e-8 * max(1, abs(e_exact)) for e in energies):
            out["viol"].append((f"C17:ofs:not-variational:{which}", f"energy {min(energies)} reported with on-the-fly swapping lies below the exact {e_exact}", detail))
        if abs(min(energies) - e_exact) > 1e-6 * max(1, abs(e_exact)):
            out["viol"].append((f"C17:ofs:energy:{which}", f"with sufficient bond the optimiser with OFS ends at {min(energies)}, exact {e_exact}", detail))
        # the (in place re-ordered) operator must still be the Hamiltonian in the order of the returned state
        e_ret = res.expectation(mpo)
        if abs(e_ret - min(energies)) > 1e-6 * max(1, abs(e_exact)):
            out["viol"].append((f"C17:ofs:state-operator-consistency:{which}", f"<psi|H|psi> of the returned state with the swapped operator is {e_ret}, reported {min(energies)}", detail))
        # state permuted back to the original order is an eigenvector of the original H (plain models)
        if not swap_jw:
            new_order = [[b.dof for b in basis].index(b.dof) for b in res.model.basis]
            v = st.dense(res)
            P = perm_matrix([b.nbas for b in basis], new_order)
            v0 = P.T @ v
            e0 = np.vdot(v0, H @ v0).real / np.vdot(v0, v0).real
            if abs(e0 - min(energies)) > 1e-6 * max(1, abs(e_exact)):
                out["viol"].append((f"C17:ofs:state-permutation:{which}", f"returned state permuted back has energy {e0} for the original Hamiltonian, reported {min(energies)}", detail))
    except Exception as ex:
        import traceback
        tb = traceback.format_exc(limit=3).splitlines()
        out["viol"].append((f"C17:ofs:raises:{which}:{type(ex).__name__}", f"{type(ex).__name__}: {ex} | {tb[-3].strip() if len(tb) > 3 else ''}", {"model": which, "ofs": ofs.name, "k": k}))
    return out


def _sweep_cases(args):
    """Drive gs.single_sweep directly (as optimize_mps does) and compare, after EVERY sweep, the energy of the working
    state with the energy the sweep reported for its last optimised site (at sufficient bond they coincide)."""
    bootstrap()
    from renormalizer.model import h_qc, Model, Op
    from renormalizer.mps import Mpo, Mps
    from renormalizer.mps.gs import single_sweep
    from renormalizer.mps.lib import Environ
    from renormalizer.utils import CompressConfig, CompressCriteria
    from renormalizer.utils.configs import OFS
    from .. import states as st
    seed, k, tier = args
    out = {"cases": [], "viol": []}
    rng = rng_for(seed, "c17sweep", k)
    which = ["qc-jw-debug", "qc-debug", "spin-ofs"][k % 3]
    try:
        if which.startswith("qc"):
            h, eri = random_integrals(2, rng, "random")
            sh, aseri = h_qc.int_to_h(h, eri)
            basis, terms = h_qc.qc_model(sh, aseri)
            qntot = np.array([1, 1]) if k % 2 else np.array([2, 1])
            ofs, swap_jw = OFS.ofs_debug, which == "qc-jw-debug"
        else:
            from ..concretize import make_family
            basis, _ = make_family("spin", 4, k % 2)
            terms = [Op("sigma_x sigma_x", [basis[i].dof, basis[j].dof], float(rng.uniform(-1, 1))) for i in range(4) for j in range(i + 1, 4)]
            terms += [Op("sigma_z", basis[i].dof, float(rng.uniform(-1, 1))) for i in range(4)]
            qntot, ofs, swap_jw = 0, [OFS.ofs_s, OFS.ofs_d, OFS.ofs_ds][k % 3], False
        model = Model(list(basis), terms)
        mpo = Mpo(model, algo="Hopcroft-Karp")
        M = 16
        reseed_global(seed, "sweep", k)
        mps = Mps.random(model, qntot, M, percent=1.0)
        mps.optimize_config.method = "2site"
        mps.ensure_right_canonical()
        environ = Environ(mps, mpo, "R")
        opt_idx = None
        detail = {"model": which, "ofs": ofs.name, "swap_jw": swap_jw, "k": k}
        out["cases"].append(json.dumps(detail))
        for isweep in range(5):
            mps.compress_config = CompressConfig(CompressCriteria.fixed, max_bonddim=M, ofs=ofs, ofs_swap_jw=swap_jw)
            micro, res_mps, mpo = single_sweep(mps, mpo, environ, None, 0.0, opt_idx)
            opt = min(micro)
            opt_idx = opt[1]
            H = np.asarray(mpo.todense())
            v = st.dense(mps)
            e_work = (np.vdot(v, H @ v) / np.vdot(v, v)).real
            e_last = micro[-1][0]
            if abs(e_work - e_last) > 1e-8 * max(1.0, abs(e_last)):
                out["viol"].append((f"C17:ofs:working-state-energy:{which}",
                                    f"after sweep {isweep} the working state has energy {e_work} but the sweep reported {e_last} for its last update", dict(detail, sweep=isweep)))
                break
    except Exception as ex:
        import traceback
        tb = traceback.format_exc(limit=3).splitlines()
        out["viol"].append((f"C17:ofs:sweep-raises:{which}:{type(ex).__name__}", f"{type(ex).__name__}: {ex} | {tb[-3].strip() if len(tb) > 3 else ''}", {"model": which, "k": k}))
    return out


def run(ctx):
    tier = ctx.tier
    M = 4
    cfg = tlc.make_cfg(constants=dict(M=M), spec="Spec", invariants=["JWisFermi", "SimplifyOK", "NormalForm", "SwapRuleOK"])
    r = tlc.run("JordanWigner", cfg, vacuity=True, timeout=3000)
    ctx.add_tlc(r, "JordanWigner M=4: all strings x all occupation states, exchange rule")
    if r["violated"]:
        ctx.violation(f"C17:spec:{r['violated']}", "JordanWigner violates " + r["violated"], {"tlc": r.get("error_text", "")[:2000]})
    cfg = tlc.make_cfg(constants=dict(M=M), spec="Spec", invariants=["EmitString"])
    e = tlc.run("JordanWigner", cfg, mode="emit", timeout=3000)
    ctx.add_tlc(e, "emit strings")
    # EmitSwapRules is a constant-level definition: TLC evaluates (and prints) it once while pre-computing constants
    strings = [x for x in e["emitted"] if "str" in x]
    rules = [x for x in e["emitted"] if "rules" in x][0]["rules"]
    n = 16
    res = pmap(_bind_strings, [(strings[i::n], M) for i in range(n)], chunksize=1)
    for st_, v in res:
        if st_ != "ok":
            raise MachineryError("simplify_op binding failed: " + v)
        for key, what, detail in v:
            ctx.violation(key, what, detail)
    for s in strings:
        ctx.case(fingerprint="str" + json.dumps(s["str"]), nontrivial=len(s["str"]) == 4)
    st_, v = pmap(_bind_rules, [rules], chunksize=1)[0]
    if st_ != "ok":
        raise MachineryError("swap rule binding failed: " + v)
    for key, what, detail in v:
        ctx.violation(key, what, detail)
    for rr in rules:
        ctx.case(fingerprint="rule" + json.dumps([rr["w1"], rr["w2"]]), nontrivial=True)
    ctx.sample({"string_from_TLC": strings[100]})
    ctx.sample({"exchange_rule_from_TLC": rules[7]})
    res = pmap(_qc_cases, [(ctx.seed, k, tier) for k in range(10 if tier == "quick" else 40)], chunksize=1)
    res += pmap(_ofs_cases, [(ctx.seed, k, tier) for k in range(12 if tier == "quick" else 48)], chunksize=1)
    res += pmap(_sweep_cases, [(ctx.seed, k, tier) for k in range(12 if tier == "quick" else 48)], chunksize=1)
    for st_, o in res:
        if st_ != "ok":
            raise MachineryError("C17 worker failed: " + o)
        for c in o["cases"]:
            ctx.case(fingerprint=c, nontrivial=True)
        for key, what, detail in o["viol"]:
            ctx.violation(key, what, detail)
    ctx.traces(0)
    ctx.cov["rule"] = ("str: every a+a / a+a+aa string on 4 spin orbitals (TLC) through the real simplify_op with and without quantum numbers; rule: every pair of local "
                       "operators through the real exchange rule in both symbol spellings; qc: integral sets (random / sparse / vanishing blocks) for 1-3(4) spatial "
                       "orbitals x stacked/flat x qn on/off, swap sequences of length <= 2 with/without JW correction, two algorithms; ofs: optimiser runs with each "
                       "swapping criterion on spin and ab-initio-like models; non-trivial = all but the two-operator strings")
