------------------------------- MODULE CorrJob -------------------------------
(* Time-correlation-function jobs built on TdMpsJob (spectra/zerot.py, spectra/finitet.py): a bra/ket pair is propagated and
   C(t_k) = <bra_k | ket_k> is recorded after every step.
     Way = "one": the ket is propagated forward, the bra stays                       (SpectraOneWayPropZeroT)
     Way = "two": steps alternate, decided by the parity of len(evolve_times): odd -> ket forward by dt,
                  even -> bra BACKWARD by dt                                          (SpectraTwoWayPropZeroT, SpectraFiniteT)
   Times in units of dt.  tket / tbra are ghosts: the physical time each state object corresponds to.
   The recorded value after k steps must be the correlation function at lag k, i.e. tket - tbra = k, and in the two-way
   scheme the two propagations stay balanced (|tket + tbra| <= 1), which is what halves the entanglement growth.      *)
EXTENDS Integers, Sequences, TLC, Json
CONSTANTS NSteps, Way
VARIABLES times, tket, tbra, lags, moves
vars == <<times, tket, tbra, lags, moves>>

Init == times = <<0>> /\ tket = 0 /\ tbra = 0 /\ lags = <<0>> /\ moves = <<>>       \* init_mps + process_mps of the initial pair

Step == /\ Len(times) <= NSteps
        /\ LET ketMoves == (Way = "one") \/ (Len(times) % 2 = 1) IN
           /\ tket' = IF ketMoves THEN tket + 1 ELSE tket
           /\ tbra' = IF ketMoves THEN tbra ELSE tbra - 1
           /\ moves' = Append(moves, IF ketMoves THEN <<"ket", "+">> ELSE <<"bra", "-">>)
           /\ lags' = Append(lags, (IF ketMoves THEN tket + 1 ELSE tket) - (IF ketMoves THEN tbra ELSE tbra - 1))
        /\ times' = Append(times, times[Len(times)] + 1)
Spec == Init /\ [][Step]_vars /\ WF_vars(Step)

LagIsTime == \A k \in 1..Len(times) : lags[k] = times[k]            \* the k-th recorded value is C(t_k)
Balanced == Way = "two" => (tket + tbra \in {0, 1})
OneWay == Way = "one" => tbra = 0
Terminates == <>(Len(times) = NSteps + 1)
Emit == (Len(times) = NSteps + 1) => PrintT(<<"EMIT", ToJson([way |-> Way, nsteps |-> NSteps, moves |-> moves])>>)
=============================================================================
