#!/bin/bash
# run verify_seed for the listed ids, N at a time
for id in "$@"; do
  p=${id%-*}; x=${id#*-}
  tools/verify_seed.py $p $x > /tmp/seedwt-$p-$x.log 2>&1 &
  while [ $(jobs -r | wc -l) -ge 5 ]; do sleep 5; done
done
wait
