------------------------------ MODULE QnLabels ------------------------------
(* Skeleton of MatrixProduct's quantum-number bookkeeping (mps/mp.py, mps/mpo.py).
   Two operands a, b over N sites; every bond index carries a ghost "true left charge".
   Stored label = trueL on bonds <= centre, Q - trueL on bonds > centre.            *)
EXTENDS Integers, Sequences, FiniteSets, TLC

CONSTANTS N,            \* number of sites, bonds 0..N
          FixAdd,       \* TRUE: add() concatenates the *moved* labels (repaired), FALSE: mirror of pinned code
          FixConj       \* TRUE: conj_trans negates qntot

Bonds == 0..N
Obj == {"a", "b", "r"}

VARIABLES trueL,   \* [Obj -> [Bonds -> Seq(Int)]]  ghost
          qn,      \* [Obj -> [Bonds -> Seq(Int)]]  stored
          c,       \* [Obj -> 0..N-1] centre (qnidx)
          Q,       \* [Obj -> Int] qntot
          live, pc
vars == <<trueL, qn, c, Q, live, pc>>

Stored(tl, cc, q) == [b \in Bonds |-> IF b <= cc THEN tl[b] ELSE [k \in DOMAIN tl[b] |-> q - tl[b][k]]]

LabelsValid(o) == qn[o] = Stored(trueL[o], c[o], Q[o])

\* mirror of MatrixProduct.move_qnidx: two loops
MoveQn(lab, cc, q, dst) ==
  LET l1 == [b \in Bonds |-> IF b >= cc + 1 THEN [k \in DOMAIN lab[b] |-> q - lab[b][k]] ELSE lab[b]]
      l2 == [b \in Bonds |-> IF b >= dst + 1 THEN [k \in DOMAIN l1[b] |-> q - l1[b][k]] ELSE l1[b]]
  IN l2

\* small family of sector-consistent skeletons: left charges non-decreasing 0..q along the chain,
\* bond 0 has the single index with charge 0, bond N the single index with charge q.
LeftCharges(q) == { f \in [Bonds -> SUBSET (0..q)] :
                      /\ f[0] = {0} /\ f[N] = {q}
                      /\ \A b \in Bonds : f[b] # {} }
SetToSeq(S) == CHOOSE s \in [1..Cardinality(S) -> S] : \A i, j \in 1..Cardinality(S) : i < j => s[i] < s[j]

Init ==
  \E q \in 1..2, fa \in LeftCharges(2), fb \in LeftCharges(2), ca \in 0..(N-1), cb \in 0..(N-1) :
     /\ q = 2
     /\ trueL = [o \in Obj |-> IF o = "a" THEN [b \in Bonds |-> SetToSeq(fa[b])]
                               ELSE IF o = "b" THEN [b \in Bonds |-> SetToSeq(fb[b])]
                               ELSE [b \in Bonds |-> <<>>]]
     /\ c = [o \in Obj |-> IF o = "a" THEN ca ELSE IF o = "b" THEN cb ELSE 0]
     /\ Q = [o \in Obj |-> IF o = "r" THEN 0 ELSE q]
     /\ qn = [o \in Obj |-> IF o = "r" THEN [b \in Bonds |-> <<>>]
                            ELSE Stored(trueL[o], c[o], Q[o])]
     /\ live = {"a", "b"}
     /\ pc = "start"

MoveQnidx(o, dst) ==
  /\ pc = "start" /\ o \in live
  /\ qn' = [qn EXCEPT ![o] = MoveQn(qn[o], c[o], Q[o], dst)]
  /\ c' = [c EXCEPT ![o] = dst]
  /\ UNCHANGED <<trueL, Q, live, pc>>

\* mirror of MatrixProduct.add (mp.py:374-435)
Add ==
  /\ pc = "start" /\ Q["a"] = Q["b"]
  /\ LET moved == MoveQn(qn["a"], c["a"], Q["a"], c["b"])      \* new_mps.move_qnidx(other.qnidx)
         left  == IF FixAdd THEN moved ELSE qn["a"]              \* pinned code zips self.qn, not new_mps.qn
         cat   == [b \in Bonds |-> IF b = 0 \/ b = N THEN <<0>> ELSE left[b] \o qn["b"][b]]
         tl    == [b \in Bonds |-> IF b = 0 THEN <<0>> ELSE IF b = N THEN <<Q["a"]>> ELSE trueL["a"][b] \o trueL["b"][b]]
     IN /\ qn' = [qn EXCEPT !["r"] = cat]
        /\ trueL' = [trueL EXCEPT !["r"] = tl]
        /\ c' = [c EXCEPT !["r"] = c["b"]]
        /\ Q' = [Q EXCEPT !["r"] = Q["a"]]
  /\ live' = live \cup {"r"}
  /\ pc' = "done"

\* mirror of Mpo.conj_trans applied to an operator-like object with charge Q (labels negate)
ConjTrans(o) ==
  /\ pc = "start" /\ o \in live
  /\ qn' = [qn EXCEPT !["r"] = [b \in Bonds |-> [k \in DOMAIN qn[o][b] |-> 0 - qn[o][b][k]]]]
  /\ trueL' = [trueL EXCEPT !["r"] = [b \in Bonds |-> [k \in DOMAIN trueL[o][b] |-> 0 - trueL[o][b][k]]]]
  /\ c' = [c EXCEPT !["r"] = c[o]]
  /\ Q' = [Q EXCEPT !["r"] = IF FixConj THEN 0 - Q[o] ELSE Q[o]]
  /\ live' = live \cup {"r"}
  /\ pc' = "done"

Next == \/ \E o \in {"a","b"}, d \in 0..(N-1) : MoveQnidx(o, d)
        \/ Add
        \/ \E o \in {"a"} : ConjTrans(o)

Spec == Init /\ [][Next]_vars
Inv == \A o \in live : LabelsValid(o)
=============================================================================
