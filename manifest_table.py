CHECKS = {
 "C01": dict(category="model_checking",
   text="TLC exhaustively checks the construction algorithm model (SymbolicMpo: loop invariant 'denotation = input terms' after every site, minimum-cover bond, swap) for every term table inside the stated scope; every TLC-enumerated table is then built by the real code with all three algorithms on six model families and compared with the dense sum of Kronecker products, also after every swap sequence of length <= 2; the symbolic operators produced by the real code are judged back by TLC with exact integer arithmetic. Right level: the quantifier is over discrete inputs (tables, algorithms, swap sequences) which TLC enumerates completely; only tensor entries are sampled.",
   note="Trusted: TLC, NumPy dense algebra, hand-written local matrices (cross-checked against op_mat). Scope: N<=3-4 sites, <=3 symbols/site, <=3-4 terms, integer factors {1,-1,2} in the spec; complex wide-range factors by concretisation.",
   technique="TLA+ algorithm model (SymbolicMpo) checked by TLC; TLC-emitted cases replayed into Mpo(); real symbolic operators trace-validated by TLC (SymbolicMpoTrace)"),
}
NOT_YET = {}
