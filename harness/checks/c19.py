"""C19 — integrator coefficient tables have their advertised order (finite, decided exactly).

TLC enumerates every increasing labelled rooted tree up to order 5 (ButcherTrees) with its density gamma(t);
the harness groups them into the 17 shapes (1,1,2,4,9 per order; alpha * sigma * gamma = n! ties TLC's gamma
to an independent symmetry count), lifts every shipped tableau to exact rationals (must round-trip to the stored
floats) and evaluates every order condition  sum_i b_i Phi_i(t) = 1/gamma(t)  up to the advertised order of each row.
"""
from fractions import Fraction
from math import factorial

from .. import tlc
from ..common import bootstrap, MachineryError

LEVEL = "model_checking"


def canon(par, x=1):
    n = len(par)
    kids = [m for m in range(1, n + 1) if par[m - 1] == x]
    return tuple(sorted(canon(par, k) for k in kids))


def sigma(shape):
    from collections import Counter
    s = 1
    for sub, mult in Counter(shape).items():
        s *= factorial(mult) * sigma(sub) ** mult
    return s


def order_of(shape):
    return 1 + sum(order_of(s) for s in shape)


def gamma_py(shape):
    g = order_of(shape)
    for s in shape:
        g *= gamma_py(s)
    return g


def lift(x):
    f = Fraction(float(x)).limit_denominator(10 ** 7)
    if float(f) != float(x):
        return None
    return f


def phi(shape, A, i):
    """elementary weight Phi_i(t) of stage i."""
    r = Fraction(1)
    for sub in shape:
        r *= sum(A[i][j] * phi(sub, A, j) for j in range(len(A)))
    return r


def run(ctx):
    bootstrap()
    from renormalizer.utils import rk
    from renormalizer.utils.configs import EvolveConfig, EvolveMethod
    # --- TLC: enumerate trees
    cfg = tlc.make_cfg(constants=dict(MaxOrder=5), spec="Spec", invariants=["GammaInv", "GraftComplete", "Emit"])
    r = tlc.run("ButcherTrees", cfg, mode="emit", coverage=True, timeout=600)
    ctx.add_tlc(r, "ButcherTrees MaxOrder=5")
    if r["violated"]:
        ctx.violation(f"C19:spec:{r['violated']}", "ButcherTrees violates " + r["violated"], {"tlc": r.get("error_text", "")[:2000]})
        return
    shapes = {}
    for e in r["emitted"]:
        sh = canon(e["par"])
        d = shapes.setdefault(sh, {"n": e["n"], "gamma": e["gamma"], "alpha": 0})
        if d["gamma"] != e["gamma"]:
            raise MachineryError(f"TLC gamma not shape-invariant for {sh}")
        d["alpha"] += 1
    per_order = [sum(1 for s, d in shapes.items() if d["n"] == k) for k in range(1, 6)]
    if per_order != [1, 1, 2, 4, 9]:
        raise MachineryError(f"tree enumeration incomplete: {per_order}")
    for sh, d in shapes.items():
        if d["alpha"] * sigma(sh) * d["gamma"] != factorial(d["n"]) or d["gamma"] != gamma_py(sh):
            raise MachineryError(f"gamma/sigma/alpha identity fails for {sh}: {d}")
    # --- every method, every row, every tree up to the advertised order
    nconds = 0
    objects = []
    for method in rk.method_list:
        objects.append((method, rk.RungeKutta(method)))
        # the tableau a propagator actually receives: through EvolveConfig, for both settings of `adaptive`
        for adaptive in (True, False):
            try:
                cfgobj = EvolveConfig(EvolveMethod.prop_and_compress_tdrk, rk_solver=method, adaptive=adaptive, guess_dt=0.1)
                objects.append((f"{method}@EvolveConfig(adaptive={adaptive})", cfgobj.rk_config))
            except Exception as ex:
                ctx.violation(f"C19:{method}:config-raises:adaptive={adaptive}", f"EvolveConfig(rk_solver={method}, adaptive={adaptive}) raised {type(ex).__name__}: {ex}", {"method": method})
    for method, obj in objects:
        a, b, c = obj.tableau
        stage = obj.stage
        A = [[lift(a[i][j]) for j in range(stage)] for i in range(stage)]
        B = [[lift(x) for x in row] for row in b]
        C = [lift(x) for x in c]
        if any(x is None for row in A for x in row) or any(x is None for row in B for x in row) or any(x is None for x in C):
            ctx.violation(f"C19:{method}:not-rational", f"tableau of {method} has an entry that is not a small rational", {"method": method})
            continue
        if len(obj.order) != len(B):
            ctx.violation(f"C19:{method}:rows-vs-orders", f"{method}: {len(B)} weight rows but orders {obj.order}", {"method": method})
            continue
        # explicit, nodes = row sums
        for i in range(stage):
            if any(A[i][j] != 0 for j in range(i, stage)):
                ctx.violation(f"C19:{method}:not-explicit", f"{method}: a[{i}] has entries on/above the diagonal", {"method": method})
            if sum(A[i]) != C[i]:
                ctx.violation(f"C19:{method}:row-sum:{i}", f"{method}: c[{i}]={C[i]} != sum_j a[{i}][j]={sum(A[i])}", {"method": method, "row": i})
        ti = obj.runge_kutta_ti_coefficient()
        ti = ti.reshape(len(B), -1)
        for row, order in enumerate(obj.order):
            for sh, d in shapes.items():
                if d["n"] > order:
                    continue
                lhs = sum(B[row][i] * phi(sh, A, i) for i in range(stage))
                nconds += 1
                ctx.case(fingerprint=(method, row, repr(sh)), nontrivial=d["n"] >= 2)
                if lhs != Fraction(1, d["gamma"]):
                    ctx.violation(f"C19:{method}:row{row}:order-condition:{sh}",
                                  f"{method} row {row} (advertised order {order}): sum b_i Phi_i(t) = {lhs} != 1/gamma = 1/{d['gamma']} for tree {sh}",
                                  {"method": method, "row": row, "tree": repr(sh)})
            # constant-coefficient expansion = Taylor coefficients up to the order
            for k in range(order + 1):
                ctx.case(fingerprint=(method, row, "ti", k), nontrivial=True)
                if abs(ti[row][k] - 1.0 / factorial(k)) > 1e-14:
                    ctx.violation(f"C19:{method}:row{row}:ti-coefficient:{k}",
                                  f"{method} row {row}: derived expansion coefficient {ti[row][k]} != 1/{k}!", {"method": method, "row": row, "k": k})
        # advertised order is sharp for the highest row? (observation only)
        # config plumbing: the tableau a config hands to the propagator is this one
        if "@" in method and obj.method != method.split("@")[0]:
            ctx.violation(f"C19:{method}:config", "EvolveConfig.rk_config does not carry the requested tableau", {"method": method})
    for order in range(0, 31):
        te = rk.TaylorExpansion(order)
        if len(te.coeff) != order + 1:
            ctx.violation(f"C19:taylor:{order}:length", f"TaylorExpansion({order}).coeff has {len(te.coeff)} entries, expected {order + 1}", {"order": order})
            continue
        for k in range(order + 1):
            ctx.case(fingerprint=("taylor", order, k), nontrivial=True)
            exact = Fraction(1, factorial(k))
            if abs(Fraction(float(te.coeff[k])) - exact) > exact * Fraction(4, 10 ** 16):
                ctx.violation(f"C19:taylor:{order}:{k}", f"TaylorExpansion({order}).coeff[{k}] = {te.coeff[k]!r} != 1/{k}! (beyond 4e-16 relative)", {"order": order, "k": k})
    ctx.notes["order_conditions_evaluated"] = nconds
    ctx.notes["tree_shapes"] = len(shapes)
    ctx.cov["exhaustive"] = True
    ctx.cov["rule"] = ("finite space enumerated completely: 10 methods x every weight row x every rooted tree (17 shapes, from TLC's 34 "
                       "increasing labelled trees of order <= 5) up to the row's advertised order, exact rationals; plus row sums, "
                       "derived constant-coefficient expansion and Taylor coefficients; non-trivial = tree order >= 2")
    ctx.sample({"tree_from_TLC": r["emitted"][20], "shape": repr(canon(r["emitted"][20]["par"]))})
    ctx.sample({"condition": "Cash-Karp45 row 0 tree ((),((),)) : sum b_i Phi_i = 1/gamma"})
    ctx.traces(0)
    ctx.assumptions += ["tableau floats are lifted to rationals with denominator <= 1e7 and must round-trip to the stored float exactly"]
