"""Abstract case -> concrete Renormalizer objects, plus the independent dense reference of every local symbol.

A *family* describes one kind of chain: for each site a BasisSet and an alphabet
   alphabet[site][k-1] = LocalSym(symbol string, dofs, qn list, dense matrix)   for symbol id k >= 1
(symbol id 0 is the identity of the site).  Dense matrices are written down here by hand (Pauli
matrices, ladder operators, |i><j|), NOT obtained from basis.op_mat, except where noted.
"""
from collections import namedtuple
import itertools

import numpy as np

LocalSym = namedtuple("LocalSym", "symbol dofs qn mat")

SX = np.array([[0., 1.], [1., 0.]])
SZ = np.array([[1., 0.], [0., -1.]])
ISY = np.array([[0., 1.], [-1., 0.]])
SP = np.array([[0., 1.], [0., 0.]])   # sigma_+ in the library's convention (|0><1|)
SM = SP.T.copy()


def _b(n):
    return np.diag(np.sqrt(np.arange(1, n)), k=1)


def site_spin(dof, variant=0):
    from renormalizer.model import basis as ba
    b = ba.BasisHalfSpin(dof)
    alpha = [
        LocalSym("sigma_x", [dof], [0], SX),
        LocalSym("sigma_z", [dof], [0], SZ),
        LocalSym("sigma_x sigma_z", [dof, dof], [0, 0], SX @ SZ),   # repeated symbols on one site, order matters
        LocalSym("sigma_+", [dof], [0], SP),
        LocalSym("iY", [dof], [0], ISY),
    ]
    if variant == 1:
        alpha = [alpha[3], alpha[2], alpha[0], alpha[1], alpha[4]]
    return b, alpha


def site_elec(dof, variant=0, qn_size=1):
    from renormalizer.model import basis as ba
    if qn_size == 1:
        b = ba.BasisSimpleElectron(dof)
        q = lambda x: x
    else:
        # two-component quantum numbers (alpha / beta spin orbital as qc_model makes them)
        comp = variant % 2
        sig = [[0, 0], [1, 0]] if comp == 0 else [[0, 0], [0, 1]]
        b = ba.BasisSimpleElectron(dof, sigmaqn=sig)
        q = (lambda x: [x, 0]) if comp == 0 else (lambda x: [0, x])
    cr = np.array([[0., 0.], [1., 0.]])
    an = cr.T.copy()
    alpha = [
        LocalSym(r"a^\dagger a", [dof, dof], [q(1), q(-1)], cr @ an),
        LocalSym(r"a^\dagger", [dof], [q(1)], cr),
        LocalSym("a", [dof], [q(-1)], an),
    ]
    if variant >= 2:
        alpha = [alpha[1], alpha[2], alpha[0]]
    return b, alpha


def site_sho(dof, nbas=3, omega=1.3, x0=0.0, variant=0, qn_size=1):
    from renormalizer.model import basis as ba
    b = ba.BasisSHO(dof, omega, nbas, x0=x0)
    if qn_size != 1:
        b.sigmaqn = np.zeros((nbas, qn_size), dtype=int)
    bm = _b(nbas)
    z = [0] * qn_size if qn_size > 1 else 0
    x = np.sqrt(0.5 / omega) * (bm + bm.T) + x0 * np.eye(nbas)
    alpha = [
        LocalSym("x", [dof], [z], x),
        LocalSym(r"b^\dagger b", [dof, dof], [z, z], bm.T @ bm),
        LocalSym(r"b^\dagger", [dof], [z], bm.T),
        LocalSym("b", [dof], [z], bm),
    ]
    if x0 != 0.0:
        # second-quantised symbols are defined for x0 = 0 only (the library warns): position/momentum symbols.
        # exact operators: built in a basis two levels larger and truncated (x^2, p^2 couple n to n+-2 only)
        big = _b(nbas + 2)
        X = np.sqrt(0.5 / omega) * (big + big.T) + x0 * np.eye(nbas + 2)
        P2 = -0.5 * omega * (big.T - big) @ (big.T - big)
        alpha = [alpha[0],
                 LocalSym("x^2", [dof], [z], (X @ X)[:nbas, :nbas]),
                 LocalSym("p^2", [dof], [z], P2[:nbas, :nbas])]
    if variant == 1 and x0 == 0.0:
        alpha = [alpha[1], alpha[3], alpha[2], alpha[0]]
    return b, alpha


def site_multi(dofs, vac=True, variant=0):
    """BasisMultiElectronVac over several DoFs on ONE site: states |vac>, |d1>, |d2>, ..."""
    from renormalizer.model import basis as ba
    b = ba.BasisMultiElectronVac(list(dofs))
    n = len(dofs) + 1

    def ket(i, j):
        m = np.zeros((n, n))
        m[i, j] = 1.0
        return m
    d1, d2 = dofs[0], dofs[1 % len(dofs)]
    i1, i2 = 1, 1 + (1 % len(dofs))
    alpha = [
        LocalSym(r"a^\dagger a", [d1, d2], [1, -1], ket(i1, i2)),     # intra-site hopping between two DoFs
        LocalSym(r"a^\dagger a", [d2, d2], [1, -1], ket(i2, i2)),
        LocalSym(r"a^\dagger", [d1], [1], ket(i1, 0)),
        LocalSym("a", [d2], [-1], ket(0, i2)),
    ]
    if variant == 1:
        alpha = [alpha[1], alpha[0], alpha[3], alpha[2]]
    return b, alpha


FAMILIES = ["spin", "elec", "eph", "qn2", "multi", "spinmix"]


def make_family(name, nsites, variant=0):
    """-> (basis list, alphabets) ; dof names are hashable and deliberately of mixed type."""
    basis, alphas = [], []
    for i in range(nsites):
        if name == "spin":
            b, a = site_spin(f"s{i}", variant=(i + variant) % 2)
        elif name == "spinmix":
            b, a = site_spin(("s", i), variant=(i + 1 + variant) % 2)
        elif name == "elec":
            b, a = site_elec(i, variant=(i + variant) % 4)
        elif name == "qn2":
            if i % 3 == 2:
                b, a = site_sho(("v", i), nbas=2 + (i % 2), omega=0.7 + 0.2 * i, qn_size=2)
            else:
                b, a = site_elec(("o", i), variant=(i + variant) % 4, qn_size=2)
        elif name == "eph":
            if (i + variant) % 2 == 0:
                b, a = site_elec(f"e{i}", variant=(i // 2) % 4)
            else:
                b, a = site_sho(f"v{i}", nbas=2 + (i % 3), omega=0.5 + 0.3 * i,
                                x0=(0.4 if i % 4 == 1 else 0.0), variant=i % 2)
        elif name == "multi":
            if i == (variant % nsites):
                b, a = site_multi([("m", i, 0), ("m", i, 1)] + ([("m", i, 2)] if variant % 2 else []), variant=variant % 2)
            elif i % 2 == 0:
                b, a = site_sho(f"v{i}", nbas=2 + (i % 2), omega=1.1 + 0.1 * i)
            else:
                b, a = site_spin(f"s{i}")
        else:
            raise ValueError(name)
        basis.append(b)
        alphas.append(a)
    return basis, alphas


def word_to_op(word, alphas, factor, rng=None):
    """One Op for a word (symbol id per site). Factors of different sites may be written in any order
    (they act on different degrees of freedom); rng shuffles that order."""
    from renormalizer.model import Op
    parts = []
    for site, k in enumerate(word):
        if k == 0:
            continue
        ls = alphas[site][k - 1]
        parts.append(Op(ls.symbol, list(ls.dofs), 1.0, qn=[q for q in ls.qn]))
    if not parts:
        # identity term: write it on the first DoF of some site
        site = 0 if rng is None else int(rng.integers(len(alphas)))
        return None, site
    if rng is not None and len(parts) > 1:
        order = rng.permutation(len(parts))
        parts = [parts[i] for i in order]
    op = parts[0]
    for p in parts[1:]:
        op = op * p
    return op * factor, None


def identity_op(basis, site, factor, qn_size=1):
    from renormalizer.model import Op
    dof = basis[site].dofs[0]
    return Op("I", dof, factor, qn=[np.zeros(qn_size, dtype=int)] if qn_size > 1 else 0)


def dense_word(word, basis, alphas):
    mats = []
    for site, k in enumerate(word):
        mats.append(np.eye(basis[site].nbas) if k == 0 else alphas[site][k - 1].mat)
    out = np.array([[1.0]])
    for m in mats:
        out = np.kron(out, m)
    return out


def dense_terms(terms, basis, alphas, offset=0.0):
    """terms: iterable of (word, coeff)."""
    dim = int(np.prod([b.nbas for b in basis]))
    tot = np.zeros((dim, dim), dtype=complex)
    for w, c in terms:
        tot = tot + c * dense_word(w, basis, alphas)
    tot = tot - offset * np.eye(dim)
    return tot


def mpo_dense(mpo):
    """Independent contraction of the site tensors of an Mpo (not Mpo.todense)."""
    arrs = [np.asarray(m.array if hasattr(m, "array") else m) for m in mpo]
    t = arrs[0]
    assert t.shape[0] == 1
    cur = t[0]          # (p, p', r)
    cur = cur.reshape(cur.shape[0], cur.shape[1], cur.shape[2])
    for a in arrs[1:]:
        # cur: (P, P', l) ; a: (l, p, p', r)
        cur = np.tensordot(cur, a, axes=([2], [0]))          # P P' p p' r
        P, Pp, p, pp, r = cur.shape
        cur = cur.transpose(0, 2, 1, 3, 4).reshape(P * p, Pp * pp, r)
    assert cur.shape[2] == 1
    return cur[:, :, 0]


def mps_dense(mps):
    """Independent contraction of an Mps (3-leg tensors) or MpDm/Mpo (4-leg) to a dense array, coeff included."""
    arrs = [np.asarray(m.array if hasattr(m, "array") else m) for m in mps]
    if arrs[0].ndim == 4:
        d = mpo_dense(mps)
    else:
        cur = arrs[0][0]         # (p, r)
        for a in arrs[1:]:
            cur = np.tensordot(cur, a, axes=([1], [0]))      # P p r
            cur = cur.reshape(cur.shape[0] * cur.shape[1], cur.shape[2])
        d = cur[:, 0]
    coeff = getattr(mps, "coeff", 1)
    return d * coeff


def perm_matrix(pdims, perm):
    """Dense permutation P such that (P v)[new order] = v[old order]: new site k is old site perm[k]."""
    n = len(pdims)
    dim = int(np.prod(pdims))
    idx = np.arange(dim).reshape(pdims).transpose(perm).reshape(-1)
    P = np.zeros((dim, dim))
    P[np.arange(dim), idx] = 1.0
    return P
