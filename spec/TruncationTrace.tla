-------------------------- MODULE TruncationTrace --------------------------
(* code -> spec: calls of CompressConfig.compute_m_trunc recorded during real compress() sweeps are re-evaluated with the
   specification's kept-count rule.  A record: s2 = squared singular values scaled to integers <= 10^4 (only recorded
   when no value lies within 1e-6 of the threshold boundary), crit, thr = [Tp, Tq], md = the max_dims entry the code
   must consult for this cut (or 0), len, got.                                                                 *)
EXTENDS Integers, Sequences, FiniteSets, TLC, Json, IOUtils
Recs == JsonDeserialize(IOEnv.TRACE_FILE)
VARIABLE i
Init == i \in 1..Len(Recs)
Next == FALSE /\ UNCHANGED i
RECURSIVE Sum(_)
Sum(q) == IF q = <<>> THEN 0 ELSE Head(q) + Sum(Tail(q))
Min(a, b) == IF a < b THEN a ELSE b
Max(a, b) == IF a > b THEN a ELSE b
Thr(r) == Max(1, Cardinality({k \in 1..Len(r.s2) : r.thr[2] * r.thr[2] * r.s2[k] > r.thr[1] * r.thr[1] * Sum(r.s2)}))
Fix(r) == Min(r.md, r.len)
Expected(r) == IF r.crit = "threshold" THEN Thr(r) ELSE IF r.crit = "fixed" THEN Fix(r) ELSE Min(Thr(r), Fix(r))
Verdict == LET r == Recs[i] IN PrintT(<<"VERDICT", ToJson([id |-> r.id, expected |-> Expected(r), got |-> r.got])>>)
=============================================================================
