"""spec -> code replay of MpHeap behaviours: step real chain objects along a TLC-emitted history and compare the
projection of EVERY live object with the specification state after EVERY action.

Owned comparison kinds (each check filters the verdicts it owns):
  C03  value (dense), observations (dot / distance / norms / expectation), survive-probe (value after a later
       canonicalise / lossless compress of a copy)
  C04  isometry of non-centre sites when the spec advertises left/right form, bond growth, exact caps after two sweeps
  C06  qntot, label validity for the stored centre, sector leakage
  C13  frame: value of every handle other than the declared result unchanged; observations change nothing
"""
import numpy as np

from . import concretize as cz
from . import states as st
from .common import rng_for, reseed_global

TOL = 1e-10
GAUGE_ACTIONS = ("Canonicalise", "CanonicaliseStop", "EnsureLeft", "EnsureRight", "CompressLossless", "CompressLosslessList", "MoveQnidx")


def _nocoeff_dense(mp):
    c = getattr(mp, "coeff", 1)
    try:
        mp.coeff = 1
        return cz.mps_dense(mp)
    finally:
        mp.coeff = c


class Universe:
    """One concretisation: model family, operators H / Cr / An (as real Mpo objects in three representation
    states and as independent dense matrices), sector bookkeeping."""

    def __init__(self, fam, N, kind, sector0, seed, variant=0):
        from renormalizer.model import Model, basis as ba
        from renormalizer.mps import Mpo
        self.fam, self.N, self.kind, self.sector0, self.seed = fam, N, kind, sector0, seed
        rng = rng_for(seed, "universe", fam, N, variant)
        if fam == "qn2x":
            basis, alphas = [], []
            for i in range(N):
                b, a = cz.site_elec(("o", i), variant=i % 2, qn_size=2)   # alpha, beta, alpha, beta
                basis.append(b)
                alphas.append(a)
            self.comp = [i % 2 for i in range(N)]
        else:
            basis, alphas = cz.make_family(fam, N, variant)
            self.comp = [0] * N
        self.basis, self.alphas = basis, alphas
        self.model = Model(list(basis), [])
        self.qn_size = self.model.qn_size
        esites = [i for i, b in enumerate(basis) if b.is_electron and self.comp[i] == 0]
        vsites = [i for i, b in enumerate(basis) if b.is_phonon]
        bsites = [i for i, b in enumerate(basis) if b.is_electron and self.comp[i] == 1]
        self.esites = esites

        def sym(site, name):
            for k, ls in enumerate(alphas[site]):
                if ls.symbol == name:
                    return k + 1
            raise KeyError((site, name))

        def word(d):
            w = [0] * N
            for s, name in d.items():
                w[s] = sym(s, name)
            return tuple(w)
        NUM, CR, AN = r"a^\dagger a", r"a^\dagger", "a"
        h = []
        for i in esites:
            h.append((word({i: NUM}), float(rng.uniform(-1, 1))))
        for a in range(len(esites)):
            for b in range(a + 1, len(esites)):
                t = float(rng.uniform(0.3, 1.0))
                h.append((word({esites[a]: CR, esites[b]: AN}), t))
                h.append((word({esites[b]: CR, esites[a]: AN}), t))
        for i in bsites:
            h.append((word({i: NUM}), float(rng.uniform(-1, 1))))
        for a in range(len(bsites)):
            for b in range(a + 1, len(bsites)):
                t = float(rng.uniform(0.3, 1.0))
                h.append((word({bsites[a]: CR, bsites[b]: AN}), t))
                h.append((word({bsites[b]: CR, bsites[a]: AN}), t))
        for v in vsites:
            first = alphas[v][0].symbol
            h.append((word({v: first}), float(rng.uniform(0.2, 0.8))))
            if esites:
                e = esites[int(rng.integers(len(esites)))]
                h.append((word({e: NUM, v: "x"}) if any(ls.symbol == "x" for ls in alphas[v]) else word({e: NUM, v: first}),
                          float(rng.uniform(0.2, 0.6))))
        ssites = [i for i, b in enumerate(basis) if b.is_spin]
        for i in ssites:
            h.append((word({i: "sigma_z"}), float(rng.uniform(-1, 1))))
        for a in range(len(ssites)):
            for b in range(a + 1, len(ssites)):
                h.append((word({ssites[a]: "sigma_x", ssites[b]: "sigma_x"}), float(rng.uniform(-1, 1))))
                if rng.random() < 0.5:
                    h.append((word({ssites[a]: "sigma_z", ssites[b]: "sigma_z"}), float(rng.uniform(-1, 1))))
        cr = [(word({i: CR}), float(rng.uniform(0.5, 1.0)) * (1 if k % 2 == 0 else -1)) for k, i in enumerate(esites)]
        an = [(word({i: AN}), float(rng.uniform(0.5, 1.0))) for i in esites]
        if not esites:
            cr = [(word({i: "sigma_x"}), float(rng.uniform(0.5, 1.0))) for i in ssites]
            an = [(word({i: "sigma_+"}), float(rng.uniform(0.5, 1.0))) for i in ssites]
        if vsites and esites and any(ls.symbol == "x" for ls in alphas[vsites[0]]):
            cr.append((word({esites[0]: CR, vsites[0]: "x"}), 0.4))
        self.terms = {"H": h, "Cr": cr, "An": an}
        self.dense_op = {k: np.real_if_close(cz.dense_terms(v, basis, alphas)) for k, v in self.terms.items()}
        from .replay_mpo import build_ops
        self.mpo = {}
        for name, terms in self.terms.items():
            ops = build_ops(terms, basis, alphas, {}, None, self.qn_size)
            fresh = Mpo(self.model, ops, algo="Hopcroft-Karp" if name != "H" else "qr")
            cano1 = fresh.copy()
            cano1.canonicalise()
            moved = fresh.copy()
            moved.move_qnidx(max(0, N - 2) if N > 1 else 0)
            self.mpo[name] = {"fresh": fresh, "cano1": cano1, "moved": moved}
        self.pdims = [b.nbas for b in basis]

    def qntot(self, Q):
        if self.qn_size == 1:
            return int(Q)
        return np.array([int(Q), 1])

    def sector_mask(self, Q):
        return st.sector_projector(self.basis, self.qntot(Q))

    def generator(self, i, gauge, keys):
        """-> (object, dense abstract value alpha)."""
        from renormalizer.mps import MpDm, Mpo
        if self.kind == "mpo":
            return self.op_generator(i, gauge, keys)
        mps = st.random_mps(self.model, self.qntot(self.sector0), 5, keys + ("gen", i))
        # un-normalise: random prefactor folded into the tensors, and a non-trivial coeff on odd generators
        r = rng_for(*keys, "genscale", i)
        mps = mps.scale(float(r.uniform(0.5, 2.0)))
        if i % 2 == 0:
            mps.coeff = float(r.uniform(0.5, 1.5)) * (-1 if r.random() < 0.5 else 1)
            if r.random() < 0.2:
                # a prefactor that agrees with the other generators' 1 to np.allclose's default tolerance but is not equal
                mps.coeff = 1.0 + 4e-7
        obj = MpDm.from_mps(mps) if self.kind == "mpdm" else mps
        c, to_right, form = gauge["c"], gauge["toRight"], gauge["form"]
        if form == "right":
            obj.canonicalise()
        elif form == "offcentre":
            obj.move_qnidx(c)
        return obj, st.dense(obj)

    def op_generator(self, i, gauge, keys):
        """A random operator of charge +sector0 (sum of creation-type words with random real coefficients)."""
        from renormalizer.mps import Mpo
        from .replay_mpo import build_ops
        r = rng_for(*keys, "opgen", i)
        N = self.N
        cr_words = [w for w, _ in self.terms["Cr"]]
        terms = [(w, float(r.uniform(0.3, 1.5)) * (1 if r.random() < 0.5 else -1)) for w in cr_words]
        # dress some words with a number operator / phonon symbol on another site so that bonds exceed 1
        hwords = [w for w, _ in self.terms["H"]]
        for w in cr_words:
            for hw in hwords:
                if all(not (a and b) for a, b in zip(w, hw)) and r.random() < 0.5:
                    terms.append((tuple(a or b for a, b in zip(w, hw)), float(r.uniform(0.2, 1.0))))
        obj = Mpo(self.model, build_ops(terms, self.basis, self.alphas, {}, None, self.qn_size), algo="Hopcroft-Karp")
        form = gauge["form"]
        if form == "right":
            obj.canonicalise()
        elif form == "offcentre":
            obj.move_qnidx(gauge["c"])
        return obj, st.dense(obj)

    def charges(self):
        tot = np.zeros(1, dtype=int)
        for b in self.basis:
            sig = np.asarray(b.sigmaqn)[:, 0]
            tot = (tot[:, None] + sig[None, :]).reshape(-1)
        return tot

    def leak(self, got, Q):
        """Norm of the part of a dense value outside the advertised sector / charge."""
        if self.qn_size != 1 and self.kind == "mpo":
            return 0.0
        if self.kind == "mps":
            return float(np.linalg.norm(got[~self.sector_mask(Q)]))
        if self.kind == "mpdm":
            return float(np.linalg.norm(got[~self.sector_mask(Q), :]))
        ch = self.charges()
        allowed = (ch[:, None] - ch[None, :]) == int(Q)
        return float(np.linalg.norm(got[~allowed]))

    def interp(self, val, gens):
        """Dense value of a spec bag  [[ [ops...], g ], re, im] ..."""
        tot = None
        for (opsw, g), re, im in val:
            v = gens[g]
            for o in opsw:               # applied in order: first element acts first
                v = self.dense_op[o] @ v
            v = (re + 1j * im) * v
            tot = v if tot is None else tot + v
        return tot


class Replayer:
    def __init__(self, uni, owned=("C03", "C04", "C06", "C13")):
        self.u = uni
        self.owned = owned

    def run(self, case, case_id, keys):
        """case = {"init": [...], "hist": [...]} ; returns dict(viol=[(key, what, detail)], steps, pruned, nontrivial)."""
        u = self.u
        out = {"viol": [], "steps": 0, "pruned": False, "nontrivial": False, "drift": []}
        objs, exp, gens = {}, {}, {}
        detail0 = {"family": u.fam, "N": u.N, "kind": u.kind, "case": case, "keys": list(map(str, keys))}

        def V(key, what, step=None):
            if key.split(":")[0] in self.owned:
                d = dict(detail0)
                d["failed_at_step"] = step
                out["viol"].append((key, what, d))
        try:
            for i, g in enumerate(case["init"], start=1):
                obj, alpha = u.generator(i, g, keys)
                objs[i] = obj
                gens[i] = alpha
                if u.kind == "mpo":
                    gens[i + len(case["init"])] = alpha.conj().T
                exp[i] = {"val": [[[[], i], 1, 0]], "Q": u.sector0, "c": g["c"], "toRight": g["toRight"], "form": g["form"], "sw": g["sw"]}
        except Exception as e:
            V("C03:init-raises", f"creating a generator in gauge {case['init']} raised {type(e).__name__}: {e}")
            return out
        kinds_seen = set()
        lineage = {}
        for si, ev in enumerate(case["hist"]):
            a = ev["a"]
            before = {h: st.dense(o) for h, o in objs.items()}
            bonds_before = {h: list(o.bond_dims) for h, o in objs.items()}
            before_obj = dict(objs)
            prev_meta = {h: (e["c"], e["toRight"], e["form"]) for h, e in exp.items()}
            x, y, r = ev["x"], ev["y"], ev["r"]
            post = ev["post"]
            # zero-vector pruning: gauge operations assert non-zero tensors; a symbolic value cannot know
            ref_new = u.interp(post["val"], gens)
            if np.linalg.norm(ref_new) < 1e-9 * max(1.0, max(np.linalg.norm(g) for g in gens.values())):
                out["pruned"] = True
                break
            try:
                res = self.step(a, ev, objs)
            except Exception as e:
                import traceback
                cls = self.operand_class(a, ev, exp)
                V(f"C03:raises:{a}:{cls}", f"{a} raised {type(e).__name__}: {e} [{traceback.format_exc(limit=3).splitlines()[-3].strip()}]", si)
                break
            objs[r] = res
            exp[r] = {k: post[k] for k in ("val", "Q", "c", "toRight", "form", "sw")}
            out["steps"] += 1
            kinds_seen.add(a)
            cls = self.operand_class(a, ev, exp)
            # ---- compare every live handle
            bad = False
            stop_after_probe = False
            for h, o in objs.items():
                ref = u.interp(exp[h]["val"], gens)
                got = st.dense(o)
                err = np.linalg.norm(got - ref)
                scale = np.linalg.norm(ref) + 1.0
                if not np.isfinite(err) or err > TOL * scale * 100:
                    if h == r:
                        V(f"C03:value:{a}:{cls}", f"after {a} the result differs from the dense expectation by {err:.2e} (norm {scale - 1:.2e})", si)
                        if a in GAUGE_ACTIONS:
                            V(f"C04:value:{a}:{cls}", f"{a} changed the represented object by {err:.2e} (norm {scale - 1:.2e})", si)
                    else:
                        V(f"C13:frame:{a}:{cls}", f"{a} changed the value of handle {h}, which is not its result, by {err:.2e}", si)
                    bad = True
                    continue
                # quantum numbers
                q = np.asarray(o.qntot).reshape(-1)
                if int(q[0]) != int(exp[h]["Q"]):
                    V(f"C06:qntot:{a}:{cls}", f"after {a} handle {h} advertises qntot {q.tolist()} but lies in sector {exp[h]['Q']}", si)
                    bad = True
                leak = u.leak(got, exp[h]["Q"])
                if leak > TOL * scale * 100:
                    V(f"C06:sector-leak:{a}:{cls}", f"after {a} handle {h} has amplitude {leak:.2e} outside sector {exp[h]['Q']}", si)
                    bad = True
                ok, worst, where = st.labels_valid(o)
                if not ok:
                    V(f"C06:labels:{a}:{cls}", f"after {a} the stored bond labels of handle {h} do not describe its non-zero blocks "
                                               f"(forbidden entry of relative size {worst:.2e} at site {where}, qnidx={o.qnidx})", si)
                    stop_after_probe = True
                if (o.qnidx, bool(o.to_right)) != (exp[h]["c"], bool(exp[h]["toRight"])):
                    out["drift"].append((a, h, (o.qnidx, bool(o.to_right)), (exp[h]["c"], exp[h]["toRight"])))
                if h == r:
                    f = exp[h]["form"]
                    # lineage flag: an operator that went through compress() since its last canonicalise()
                    if a in ("CompressLossless", "CompressLosslessList"):
                        lineage[h] = True
                    elif a in ("Canonicalise", "EnsureLeft", "EnsureRight", "CanonicaliseStop") and \
                            (bool(post["toRight"]) != bool(prev_meta[h][1]) or post["c"] != prev_meta[h][0]) and post["form"] in ("left", "right"):
                        lineage[h] = False      # a full sweep re-orthogonalised every site
                    elif a in ("Copy", "Scale", "Conj"):
                        lineage[h] = lineage.get(ev["x"], False)
                    elif a in ("Add", "Sub", "Apply", "ConjTrans"):
                        lineage[h] = False
                    if f in ("left", "right") and (o.qnidx, bool(o.to_right)) == (exp[h]["c"], bool(exp[h]["toRight"])):
                        if u.kind != "mpo":
                            d = st.canonical_defect(o)
                            if d > 1e-8:
                                V(f"C04:isometry:{a}:{cls}", f"after {a} handle {h} is advertised {f}-canonical but a non-centre site deviates from an isometry by {d:.2e}", si)
                                bad = True
                        else:
                            dp = st.canonical_defect(o, proportional=True)
                            ds = st.canonical_defect(o)
                            if dp > 1e-8:
                                if lineage.get(h):
                                    V("C04:isometry:mpo:compress-leaves-singular-values-on-site",
                                      f"after {a} the operator is advertised {f}-canonical but a non-centre site is not even proportional to an isometry ({dp:.2e})", si)
                                else:
                                    V(f"C04:isometry:{a}:{cls}:mpo", f"after {a} operator handle {h} is advertised {f}-canonical but a non-centre site is not proportional to an isometry ({dp:.2e})", si)
                                    bad = True
                            elif ds > 1e-8:
                                V("C04:isometry:mpo:canonical-form-not-normalised",
                                  f"after {a} the non-centre sites of the operator are isometries only up to a positive scalar (deviation {ds:.2e})", si)
                    if a in ("Canonicalise", "CanonicaliseStop", "EnsureLeft", "EnsureRight", "CompressLossless", "CompressLosslessList"):
                        bb, ba_ = bonds_before[h], list(o.bond_dims)
                        if any(n > m for n, m in zip(ba_, bb)):
                            V(f"C04:bond-grew:{a}:{cls}", f"{a} increased a bond dimension: {bb} -> {ba_}", si)
                            bad = True
                        if exp[h]["sw"] >= 2:
                            caps = st.exact_bond_caps(u.pdims, squared=(u.kind != "mps"))
                            if any(n > m for n, m in zip(ba_, caps)):
                                V(f"C04:bond-cap:{a}:{cls}", f"after two opposite sweeps bonds {ba_} exceed the physical caps {caps}", si)
                                bad = True
            if bad:
                break
            # ---- survive probe on the result: a later canonicalise / lossless compress of a copy keeps the value
            try:
                p = objs[r].copy()
                p.ensure_right_canonical()
                p.canonicalise()
                big = 10 ** 6
                p.compress(temp_m_trunc=big)
                ref = u.interp(exp[r]["val"], gens)
                err = np.linalg.norm(st.dense(p) - ref)
                if err > 1e-8 * (np.linalg.norm(ref) + 1):
                    V(f"C03:survive:{a}:{cls}", f"the result of {a} is right densely but changes by {err:.2e} when a copy is canonicalised and compressed without truncation", si)
                    break
                d = st.canonical_defect(p)
                if d > 1e-8 and u.kind != "mpo" and not stop_after_probe:
                    V(f"C04:isometry-after-probe:{a}:{cls}", f"canonicalise+compress of the result of {a} leaves a non-isometric site ({d:.2e})", si)
                    break
            except Exception as e:
                V(f"C03:survive-raises:{a}:{cls}", f"canonicalise/compress of a copy of the result of {a} raised {type(e).__name__}: {e}", si)
                break
            if stop_after_probe:
                break
            # ---- observations (must agree with dense algebra and must not disturb anything)
            if not self.observe(objs, exp, gens, r, a, cls, V, si):
                break
        out["nontrivial"] = any(k in kinds_seen for k in ("Add", "Sub", "Apply")) and len(kinds_seen) >= 1
        return out

    # ------------------------------------------------------------------
    def operand_class(self, a, ev, exp):
        if a in ("Add", "Sub"):
            ex, ey = exp.get(ev["x"]), exp.get(ev["y"])
            if ex and ey:
                return "centres-differ" if ex["c"] != ey["c"] else "centres-equal"
        if a == "Apply":
            return f"op-{ev['o']}-{ev['og']}"
        return "any"

    def step(self, a, ev, objs):
        x, y = ev["x"], ev["y"]
        k = ev["k"]
        ox = objs[x]
        if a == "Copy":
            return ox.copy()
        if a == "Conj":
            return ox.conj()
        if a == "ConjTrans":
            return ox.conj_trans()
        if a in ("Scale", "ScaleInplace"):
            s = complex(k[0], k[1]) if k[1] != 0 else float(k[0])
            return ox.scale(s, inplace=(a == "ScaleInplace"))
        if a == "Add":
            return ox.add(objs[y])
        if a == "Sub":
            return ox - objs[y]
        if a == "Apply":
            return self.u.mpo[ev["o"]][ev["og"]].apply(ox)
        if a == "ToComplexInplace":
            return ox.to_complex(inplace=True)
        if a == "MoveQnidx":
            ox.move_qnidx(int(k[0]))
            return ox
        if a == "Canonicalise":
            return ox.canonicalise()
        if a == "CanonicaliseStop":
            return ox.canonicalise(stop_idx=int(k[0]))
        if a == "EnsureLeft":
            return ox.ensure_left_canonical()
        if a == "EnsureRight":
            return ox.ensure_right_canonical()
        if a == "CompressLossless":
            return ox.compress(temp_m_trunc=10 ** 6)
        if a == "CompressLosslessList":
            return ox.compress(temp_m_trunc=[int(b) for b in ox.bond_dims])
        raise ValueError(a)

    def observe(self, objs, exp, gens, r, a, cls, V, si):
        u = self.u
        before = {h: (st.dense(o), [np.array(t) for t in st.arrays(o)]) for h, o in objs.items()}
        o = objs[r]
        tr = _nocoeff_dense(o)
        ok = True
        try:
            nrm = o.mp_norm
            if abs(nrm - np.linalg.norm(tr)) > 1e-9 * (np.linalg.norm(tr) + 1):
                V(f"C03:observe:mp_norm:{a}", f"mp_norm {nrm} != dense {np.linalg.norm(tr)}", si)
                ok = False
            full = o.norm if u.kind != "mpo" else np.linalg.norm(before[r][0])
            if abs(full - np.linalg.norm(before[r][0])) > 1e-9 * (np.linalg.norm(before[r][0]) + 1):
                V(f"C03:observe:norm:{a}", f"norm {full} != dense {np.linalg.norm(before[r][0])}", si)
                ok = False
            for h, p in objs.items():
                if int(exp[h]["Q"]) != int(exp[r]["Q"]):
                    continue
                # Mps.distance/add may fold the prefactor into the tensors (representation, not value): re-read
                tr = _nocoeff_dense(o)
                tp = _nocoeff_dense(p)
                d = o.conj().dot(p)
                ref = np.vdot(tr.reshape(-1), tp.reshape(-1))
                # absolute floor: a state of norm 1e-4 produced by cancellation between O(1) site tensors carries round-off of
                # order 1e-16 in its inner products (thorough tier: <x|x> = 7.35e-9 off by 2.6e-17)
                if abs(d - ref) > 1e-9 * (abs(ref) + np.linalg.norm(tr) * np.linalg.norm(tp)) + 1e-13:
                    V(f"C03:observe:dot:{a}", f"<{r}|{h}> = {d} but the dense inner product is {ref}", si)
                    ok = False
                if h != r:
                    dist = o.distance(p)
                    refd = np.linalg.norm(before[r][0] - before[h][0])
                    if abs(dist - refd) > 1e-6 * (refd + np.linalg.norm(before[r][0]) + np.linalg.norm(before[h][0])):
                        c1, c2 = complex(getattr(o, "coeff", 1)), complex(getattr(p, "coeff", 1))
                        if np.allclose(c1, c2) and abs(abs(c1) - 1) > 1e-6 and abs(dist * abs(c1) - refd) <= 1e-6 * (refd + 1):
                            V("C03:observe:distance:equal-prefactors-ignored",
                              f"distance({r},{h}) = {dist} ignores the common prefactor {c1}: dense gives {refd}", si)
                        else:
                            V(f"C03:observe:distance:{a}", f"distance({r},{h}) = {dist} but dense gives {refd}", si)
                            ok = False
            tr = _nocoeff_dense(o)
            if u.kind == "mps":
                e = o.expectation(u.mpo["H"]["fresh"])
                ref = np.vdot(tr, u.dense_op["H"] @ tr)
                if abs(e - ref) > 1e-9 * (abs(ref) + np.linalg.norm(tr) ** 2 * np.linalg.norm(u.dense_op["H"]) + 1e-30):
                    V(f"C03:observe:expectation:{a}", f"expectation(H) = {e} but dense gives {ref}", si)
                    ok = False
        except Exception as e:
            V(f"C03:observe-raises:{a}:{cls}", f"an observation after {a} raised {type(e).__name__}: {e}", si)
            return False
        # observations must not change the VALUE of anything (representation may be re-folded by add/distance)
        for h, p in objs.items():
            err = np.linalg.norm(st.dense(p) - before[h][0])
            if err > TOL * (np.linalg.norm(before[h][0]) + 1) * 100:
                V(f"C13:observe-disturbs:{a}", f"measuring (dot/distance/norm/expectation) changed the value of handle {h} by {err:.2e}", si)
                ok = False
        return ok


# ---------------------------------------------------------------------------------------------------------
_UNIVERSES = {}


def get_universe(fam, N, kind, sector0, seed, variant=0):
    key = (fam, N, kind, sector0, seed, variant)
    if key not in _UNIVERSES:
        _UNIVERSES[key] = Universe(fam, N, kind, sector0, seed, variant)
    return _UNIVERSES[key]


def replay_chunk(args):
    """args = (list of (case_id, case), universe spec, owned, seed) -> list of per-case results."""
    from .common import bootstrap
    bootstrap()
    cases, uspec, owned, seed = args
    uni = get_universe(*uspec)
    rp = Replayer(uni, owned)
    out = []
    for cid, case in cases:
        res = rp.run(case, cid, (seed, "heap", uspec[0], uspec[2], cid))
        out.append((cid, res))
    return out
