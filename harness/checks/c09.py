"""C09 — real-time evolution converges to the exact propagator for every scheme (chain states and density operators).

 * EvolveSpace.tla: TLC enumerates the accepted configuration space (8 schemes x local integrator x adaptive x Runge-Kutta
   tableau x CMF order x overlap forcing x time-dependent Hamiltonian x state form x input gauge) and every split of the
   total time into <= MaxSplit calls with optional scheme switches (invariant TimeAdds).
 * Adaptive.tla: the three step-size controllers in integer time quanta (accepted steps sum to the target, no overshoot,
   termination; the pinned general-RK controller is a must-fail regression config).
 * SweepPS.tla: the two half sweeps of the one-site projector splitting with version-stamped environments (EnvFresh,
   FullCoverage from every start centre and direction).
 * every emitted (configuration, history) is executed by the real library on small models with a dense reference; after
   every call: accuracy within the scheme's order, bond limit, sector, input untouched; single-call histories: order test
   (one step vs two half steps), repeat test, the other local integrator.
 * one-site projector splitting at INSUFFICIENT bond: norm and energy conserved along trajectories.
 * recorded inner step sizes of the adaptive controllers are validated by TLC (AdaptiveTrace).
"""
import json
import os
import random
import tempfile

import numpy as np

from .. import tlc
from ..common import pmap, MachineryError, bootstrap, rng_for, reseed_global

LEVEL = "model_checking"
IMAG = False
PID = "C09"


def _chunk(args):
    bootstrap()
    from .. import evolve
    jobs, seed = args
    out = []
    systems = {}
    for idx, case in jobs:
        fam, N = [("eph", 4), ("spin", 4), ("elec", 4), ("eph", 3)][idx % 4]
        key = (fam, N, idx % 2)
        if key not in systems:
            systems[key] = evolve.System(fam, N, seed, idx % 2)
        import signal
        import time

        class _Timeout(BaseException):
            pass

        def _alarm(signum, frame):
            raise _Timeout()
        signal.signal(signal.SIGALRM, _alarm)
        signal.alarm(120)
        t0 = time.time()
        try:
            r = evolve.run_case(systems[key], case, idx, seed)
        except _Timeout:
            r = {"viol": [], "meas": [{"timeout": True, "case": case}], "nontrivial": False}
        except Exception as e:
            import traceback
            r = {"viol": [(f"{PID}:harness-exception:{type(e).__name__}", traceback.format_exc(limit=5), {"case": case})], "meas": [], "nontrivial": False}
        finally:
            signal.alarm(0)
        r["wall"] = time.time() - t0
        out.append((idx, r))
    return out


def _ps_conservation(args):
    """one-site projector splitting with a bond dimension far BELOW the exact ranks: norm and energy along a trajectory."""
    bootstrap()
    from .. import evolve, states as st
    from renormalizer.utils import EvolveConfig, EvolveMethod, CompressConfig, CompressCriteria
    seed, k = args
    out = {"viol": [], "cases": []}
    fam, N = [("eph", 4), ("spin", 5), ("elec", 5)][k % 3]
    sys_ = evolve.System(fam, N, seed, k % 2)
    for solver in ("krylov", "RK45"):
        detail = {"system": [fam, N], "solver": solver, "k": k}
        try:
            m = st.random_mps(sys_.model, sys_.qntot, 2, (seed, "psc", k), cplx=False)
            m = m.add(st.random_mps(sys_.model, sys_.qntot, 2, (seed, "psc2", k)).scale(0.5))
            m.ensure_left_canonical()
            m.canonicalise()
            m.compress(temp_m_trunc=3)       # bonds <= 3: far below the exact ranks in the middle, never above a physical cap
            if m.mp_norm < 1e-12:
                continue
            m = m.scale(1.0 / m.mp_norm)
            m.evolve_config = EvolveConfig(EvolveMethod.tdvp_ps, ivp_solver=solver, ivp_rtol=1e-10, ivp_atol=1e-12)
            m.compress_config = CompressConfig(CompressCriteria.fixed, max_bonddim=64)
            bd = list(m.bond_dims)
            e0 = m.expectation(sys_.mpo)
            cur = m
            for step in range(6):
                cur = cur.evolve(sys_.mpo, 0.3)
                out["cases"].append(f"psc/{k}/{solver}/{step}")
                n_, e_ = cur.mp_norm * abs(cur.coeff), cur.expectation(sys_.mpo)
                if abs(n_ - 1) > 1e-7 or abs(e_ - e0) > 1e-7:
                    out["viol"].append((f"C09:ps1-conservation:{solver}", f"one-site projector splitting at bond {bd}: after {step + 1} steps norm={n_}, energy {e0} -> {e_}", detail))
                    break
                if list(cur.bond_dims) != bd:
                    out["viol"].append((f"C09:ps1-bond-changed:{solver}", f"one-site scheme changed the bond dimensions {bd} -> {list(cur.bond_dims)}", detail))
                    break
        except Exception as e:
            out["viol"].append((f"C09:ps1-conservation-raises:{type(e).__name__}", f"{type(e).__name__}: {e}", detail))
    return out


def _spectra_cases(args):
    """clients of real-time evolution: zero-temperature correlation-function jobs (one-way / two-way propagation).
    The sequence of Mps.evolve calls (which of bra / ket, sign of the step) is recorded and compared with the CorrJob
    schedule; every recorded autocorrelation value is compared with <phi| exp(-i H t_k) |phi> from dense algebra."""
    bootstrap()
    from scipy.linalg import expm
    from renormalizer.model import HolsteinModel, Mol, Phonon
    from renormalizer.mps import Mps, Mpo
    from renormalizer.spectra import SpectraOneWayPropZeroT, SpectraTwoWayPropZeroT
    from renormalizer.utils import Quantity, EvolveConfig, EvolveMethod, CompressConfig, CompressCriteria, OptimizeConfig
    from .. import concretize as cz, states as st
    seed, k, moves = args
    out = {"cases": [], "viol": [], "traces": 0, "meas": []}
    rng = rng_for(seed, "c09spectra", k)
    mols = []
    for m in range(2):
        phs = [Phonon.simple_phonon(Quantity(float(rng.uniform(0.6, 1.4))), Quantity(float(rng.uniform(-0.8, 0.8))), 3)]
        mols.append(Mol(Quantity(float(rng.uniform(-0.3, 0.3))), phs, dipole=float(rng.uniform(0.5, 1.5)) * (-1 if m and k % 2 else 1)))
    model = HolsteinModel(mols, Quantity(float(rng.uniform(0.1, 0.5))), scheme=2 if k % 2 == 0 else 3)
    offset = float(rng.uniform(-0.5, 0.5))
    H = np.asarray(cz.mpo_dense(Mpo(model, offset=Quantity(offset))))
    dims = [b.nbas for b in model.basis]
    # dipole operators assembled here: sum_i d_i a^+_i
    D = np.zeros((int(np.prod(dims)),) * 2)
    for i, b in enumerate(model.basis):
        if b.is_electron:
            mats = [np.eye(d) for d in dims]
            mats[i] = np.array([[0.0, 0.0], [1.0, 0.0]])
            full = np.eye(1)
            for mm in mats:
                full = np.kron(full, mm)
            D += model.dipole[b.dof] * full
    for cls_, way in ((SpectraOneWayPropZeroT, "one"), (SpectraTwoWayPropZeroT, "two")):
        for stype in ("abs", "emi"):
            for meth in (EvolveMethod.prop_and_compress_tdrk4, EvolveMethod.tdvp_ps2):
                detail = {"job": cls_.__name__, "type": stype, "method": meth.name, "holstein_scheme": model.scheme, "k": k}
                out["cases"].append(json.dumps(detail))
                try:
                    nsteps, dt = 5, 0.08
                    reseed_global(seed, "c09spectra-run", k, way, stype, meth.name)
                    # the library CALLS its compress_config argument (spectra/base.py), so a factory is passed
                    job = cls_(model, stype, optimize_config=OptimizeConfig(procedure=[[16, 0.4], [16, 0.2], [16, 0], [16, 0]]),
                               evolve_config=EvolveConfig(meth), compress_config=lambda: CompressConfig(CompressCriteria.fixed, max_bonddim=32),
                               offset=Quantity(offset))
                    rec = []
                    o_ev = Mps.evolve

                    def ev(self_, mpo, evolve_dt, *a, **kw):
                        pair = job.latest_mps
                        who = "bra" if self_ is pair.bra_mps else ("ket" if self_ is pair.ket_mps else "other")
                        rec.append([who, "+" if np.real(evolve_dt) > 0 else "-"])
                        return o_ev(self_, mpo, evolve_dt, *a, **kw)
                    Mps.evolve = ev
                    try:
                        job.evolve(dt, nsteps)
                    finally:
                        Mps.evolve = o_ev
                    out["traces"] += 1
                    if rec != [list(m_) for m_ in moves[way]]:
                        out["viol"].append((f"DRIFT:C09:corrjob:schedule:{way}", f"recorded propagation calls {rec} differ from the CorrJob schedule {moves[way]}", detail))
                    # dense reference
                    nex = 0 if stype == "abs" else 1
                    mask = st.sector_projector(model.basis, nex)
                    w, v = np.linalg.eigh(H[np.ix_(mask, mask)])
                    g = np.zeros(H.shape[0], dtype=complex)
                    g[mask] = v[:, 0]
                    phi = (D if stype == "abs" else D.T) @ g
                    ref = np.array([phi.conj() @ expm(-1j * H * (dt * j)) @ phi for j in range(nsteps + 1)])
                    got = np.asarray(job.autocorr)
                    if got.shape != ref.shape:
                        out["viol"].append(("C09:corrjob:length", f"{len(got)} correlation values for {nsteps} steps", detail))
                        continue
                    if not np.allclose(job.evolve_times, [dt * j for j in range(nsteps + 1)]):
                        out["viol"].append(("C09:corrjob:times", f"evolve_times {job.evolve_times}", detail))
                    err = float(np.abs(got - ref).max() / np.abs(ref[0]))
                    out["meas"].append({"way": way, "type": stype, "method": meth.name, "err": err})
                    if err > 3e-5:
                        out["viol"].append((f"C09:corrjob:value:{way}:{stype}", f"autocorrelation differs from <phi|exp(-iHt)|phi> by {err:.2e} (relative to C(0))", detail))
                except Exception as e:
                    import traceback
                    tb = traceback.format_exc(limit=4).splitlines()
                    out["viol"].append((f"C09:corrjob:raises:{type(e).__name__}", f"{type(e).__name__}: {e} | {' | '.join(x.strip() for x in tb[-4:-1])}", detail))
    return out


def design(ctx):
    for kind in ("tdvp", "taylor", "rk"):
        cfg = tlc.make_cfg(constants=dict(Target=6, MaxGuess=8, Kind=f'"{kind}"', PinnedRK=False), spec="Spec",
                           invariants=["NoOvershoot", "TimeAccounting"], properties=["Terminates"])
        r = tlc.run("Adaptive", cfg, vacuity=True, timeout=600)
        ctx.add_tlc(r, f"Adaptive controller {kind}")
        if r["violated"]:
            ctx.violation(f"C09:spec:Adaptive:{r['violated']}", f"Adaptive({kind}) violates {r['violated']}", {"tlc": r.get("error_text", "")[:2000]})
    cfg = tlc.make_cfg(constants=dict(Target=6, MaxGuess=8, Kind='"rk"', PinnedRK=True), spec="Spec", invariants=["TimeAccounting"])
    r = tlc.run("Adaptive", cfg, timeout=600, expect_violation=True)
    ctx.add_tlc(r, "Adaptive pinned general-RK controller (must fail)")
    if r["violated"] != "TimeAccounting":
        raise MachineryError("regression config: pinned RK controller no longer violates TimeAccounting")
    cfg = tlc.make_cfg(constants=dict(N=4, Regauge=True), spec="Spec", invariants=["EnvFresh", "OnCentre", "FullCoverage"])
    r = tlc.run("SweepPS", cfg, vacuity=True, timeout=600)
    ctx.add_tlc(r, "SweepPS N=4 (re-gauging at entry)")
    if r["violated"]:
        ctx.violation(f"C09:spec:SweepPS:{r['violated']}", f"SweepPS violates {r['violated']}", {"tlc": r.get("error_text", "")[:2000]})
    cfg = tlc.make_cfg(constants=dict(N=4, Regauge=False), spec="Spec", invariants=["FullCoverage"])
    r = tlc.run("SweepPS", cfg, timeout=600, expect_violation=True)
    ctx.add_tlc(r, "SweepPS pinned (no re-gauging at entry, must fail)")
    if r["violated"] != "FullCoverage":
        raise MachineryError("regression config: the pinned sweep without re-gauging no longer violates FullCoverage")


def _judge_ps_schedule(ctx, pid, ptraces, cases):
    """code -> spec: environment reads, system-block rebuilds and signs of the local evolutions recorded from real one-site
    projector-splitting calls must be the schedule TLC emitted from SweepPS for that chain length and entry direction."""
    sched = {}
    for N in sorted({t["n"] for t in ptraces}):
        cfg = tlc.make_cfg(constants=dict(N=N, Regauge=True), spec="Spec", invariants=["EnvFresh", "OnCentre", "FullCoverage", "EmitSchedule"])
        r = tlc.run("SweepPS", cfg, mode="emit", timeout=600)
        ctx.add_tlc(r, f"SweepPS N={N}: schedule emission")
        if r["violated"]:
            ctx.violation(f"{pid}:spec:SweepPS:{r['violated']}", f"SweepPS violates {r['violated']}", {"tlc": (r.get("error_text") or "")[:2000]})
        for e in r["emitted"]:
            sched[("ps", e["n"], e["start"])] = [["ev", x[1]] if x[0] in ("ev1", "ev0") else list(x) for x in e["events"]]
        cfg = tlc.make_cfg(constants=dict(N=N), spec="Spec", invariants=["EnvFresh", "NetTime", "EmitSchedule"])
        r = tlc.run("SweepPS2", cfg, mode="emit", vacuity=True, timeout=600)
        ctx.add_tlc(r, f"SweepPS2 N={N}: two-site sweep, EnvFresh + NetTime + schedule emission")
        if r["violated"]:
            ctx.violation(f"{pid}:spec:SweepPS2:{r['violated']}", f"SweepPS2 violates {r['violated']}", {"tlc": (r.get("error_text") or "")[:2000]})
        for e in r["emitted"]:
            sched[("ps2", e["n"], e["start"])] = [list(x) for x in e["events"]]
    if not ptraces:
        raise MachineryError("no projector-splitting call was recorded")
    for t in ptraces:
        ctx.traces(1)
        exp = sched.get((t["scheme"], t["n"], t["start"]))
        if exp is None:
            raise MachineryError(f"no SweepPS schedule for {(t['scheme'], t['n'], t['start'])}")
        got = [e for e in t["events"] if t["scheme"] == "ps2" or e[0] != "upd"]
        if got != exp:
            first = next((i for i, (a, b) in enumerate(zip(got, exp)) if a != b), min(len(got), len(exp)))
            ctx.drift(f"{pid}:schedule:{t['scheme']}", f"recorded sweep differs from the Sweep{t['scheme'].upper()} schedule at event {first}: got {got[first:first + 3]}, expected {exp[first:first + 3]}",
                          {"trace": t, "case": cases[t["idx"]]})
    ctx.notes["ps_schedule_traces"] = len(ptraces)


def _judge_adaptive(ctx, pid, atraces, cases):
    """code -> spec: the recorded inner steps of the adaptive controllers, judged by TLC (AdaptiveTrace) in one batch,
    together with corrupted copies of one of them that MUST be rejected (binding demonstration)."""
    import copy
    import os
    import tempfile
    if not atraces:
        raise MachineryError("no adaptive controller trace was recorded")
    batch = [dict(t) for t in atraces]
    donor = next((t for t in atraces if any(e["ev"] == "reject" for e in t["events"]) and any(e["ev"] == "accept" for e in t["events"])), None) \
        or next((t for t in atraces if any(e["ev"] == "reject" for e in t["events"])), None)
    corrupt = []
    if donor is not None:
        for name in ("reject-not-shrunk", "last-event-removed", "trial-advanced-on-reject", "guess-not-carried"):
            t = copy.deepcopy(donor)
            ev = t["events"]
            k = next(i for i, e in enumerate(ev) if e["ev"] == "reject")
            if name == "reject-not-shrunk":
                ev[k]["guess"] = ev[k - 1]["dt"]
            elif name == "last-event-removed":
                ev.pop()
            elif name == "trial-advanced-on-reject":
                ev[k]["ev"] = "accept"               # the pinned general-RK defect: a rejected trial that advances the state
                ev[k]["guess"] = ev[k - 1]["guess"]
            else:
                ev[k + 1]["guess"] = ev[k + 1]["guess"] * 3 + 1000
            t["id"] = len(batch)
            t["corrupt"] = name
            batch.append(t)
            corrupt.append(t["id"])
    with tempfile.NamedTemporaryFile("w", suffix=".json", delete=False) as fh:
        # very long traces (a controller that keeps rejecting) are judged on their first 2000 events
        json.dump([dict({k: t[k] for k in ("id", "kind", "target", "tol")}, events=t["events"][:2000], complete=len(t["events"]) <= 2000) for t in batch], fh)
        path = fh.name
    try:
        rt = tlc.run("AdaptiveTrace", tlc.make_cfg(init="Init", next_="Next", invariants=["Verdict"]), mode="trace", env={"TRACE_FILE": path}, timeout=3000)
    finally:
        os.unlink(path)
    ctx.add_tlc(rt, "AdaptiveTrace batch (recorded controller steps + corrupted copies that must be rejected)")
    if len(rt["verdicts"]) != len(batch):
        raise MachineryError("AdaptiveTrace verdict count mismatch")
    verdicts = {v["id"]: v["verdict"] for v in rt["verdicts"]}
    for cid in corrupt:
        if verdicts[cid] == "ok":
            raise MachineryError(f"binding demonstration failed: corrupted controller trace '{batch[cid]['corrupt']}' was accepted")
    stats = {"traces": len(atraces), "with_rejections": sum(1 for t in atraces if any(e["ev"] == "reject" for e in t["events"])),
             "with_substeps": sum(1 for t in atraces if any(e["ev"] == "accept" for e in t["events"])),
             "corrupted_copies_rejected": {batch[c]["corrupt"]: verdicts[c] for c in corrupt}}
    ctx.notes["adaptive_traces"] = stats
    for t in atraces:
        ctx.traces(1)
        if verdicts[t["id"]] != "ok":
            ctx.drift(f"{pid}:trace:adaptive:{t['kind']}:{verdicts[t['id']]}", f"TLC: recorded inner steps of the adaptive controller violate clause {verdicts[t['id']]} of AdaptiveTrace",
                          {"trace": t, "case": cases[t["idx"]]})
    if stats["with_rejections"]:
        ctx.sample({"adaptive_controller_trace_judged_by_TLC": donor})


def run(ctx, imag=False):
    tier = ctx.tier
    pid = "C10" if imag else "C09"
    if not imag:
        design(ctx)
    cfg = tlc.make_cfg(constants=dict(T=4, MaxSplit=2 if tier == "quick" else 3, Wide=(tier != "quick")), spec="Spec", invariants=["TimeAdds", "Emit"])
    e = tlc.run("EvolveSpace", cfg, mode="emit", timeout=3000)
    ctx.add_tlc(e, "EvolveSpace accepted configurations x call histories")
    if e["violated"]:
        ctx.violation(f"{pid}:spec:{e['violated']}", "EvolveSpace violates " + e["violated"], {"tlc": e.get("error_text", "")[:2000]})
    cases = [c for c in e["emitted"] if bool(c["cfg"]["imag"]) == imag]
    rnd = random.Random(ctx.seed)
    if tier == "quick":
        # stratified sample: every (scheme, adaptive, solver, td, form, gauge, cmf, rk) class at least once, then random fill
        cls = {}
        for c in cases:
            k = json.dumps([c["cfg"][x] for x in ("scheme", "adaptive", "solver", "td", "form", "gauge", "cmf", "rk", "force_ovlp")] + [len(c["calls"])])
            cls.setdefault(k, []).append(c)
        # non-default gauges get 4 members per class (they land on different systems / seeds), the rest 2
        cases = [c for k, v in cls.items() for c in rnd.sample(v, min(len(v), 4 if json.loads(k)[5] != "fresh" else 2))]
    jobs = list(enumerate(cases))
    n = 64
    res = pmap(_chunk, [(jobs[i::n], ctx.seed) for i in range(n) if jobs[i::n]], chunksize=1)
    stats = {}
    slow = []
    atraces = []
    ptraces = []
    for st_, o in res:
        if st_ != "ok":
            raise MachineryError("evolve worker failed: " + o)
        for idx, r in o:
            case = cases[idx]
            ctx.case(fingerprint=json.dumps(case, sort_keys=True), nontrivial=r["nontrivial"])
            for key, what, detail in r["viol"]:
                if key.split(":")[0] in (pid, "C09" if not imag else "C10"):
                    ctx.violation(key, what, detail)
                elif key.split(":")[0] in ("C13", "C06"):
                    # reported by their own checks; kept in the evidence notes here
                    stats.setdefault("foreign", []).append(key)
            slow.append((r.get("wall", 0), idx))
            for t in r.get("ps_traces", []):
                ptraces.append(t)
            for t in r.get("adaptive_traces", []):
                t["id"] = len(atraces)
                atraces.append(t)
            for m in r["meas"]:
                if m.get("timeout"):
                    stats.setdefault("timeouts", []).append(m["case"])
                    continue
                if "err" in m:
                    k = f"{m['scheme']}/p={m['p']}/adaptive={m['adaptive']}/{m['solver']}/td={m['td']}/{m['form']}/full={m['full_bond']}"
                    s = stats.setdefault(k, {"n": 0, "max_err": 0.0})
                    s["n"] += 1
                    s["max_err"] = max(s["max_err"], m["err"])
                elif "ratio" in m:
                    k = f"order-ratio/{m['scheme']}/{m.get('rk')}/{m.get('cmf')}/p={m['p']}"
                    s = stats.setdefault(k, {"n": 0, "max_ratio": 0.0, "ideal": 2.0 ** (-m['p'])})
                    s["n"] += 1
                    if m["e_full"] > 1e-7:
                        s["max_ratio"] = max(s["max_ratio"], m["ratio"])
                elif "solver_diff" in m:
                    k = f"solver-diff/{m['scheme']}/{m.get('cmf')}"
                    s = stats.setdefault(k, {"n": 0, "max": 0.0})
                    s["n"] += 1
                    s["max"] = max(s["max"], m["solver_diff"])
    ctx.notes["cases_stopped_after_120s"] = stats.pop("timeouts", [])
    slow.sort(reverse=True)
    ctx.notes["slowest_cases"] = [{"wall_s": round(w, 1), "cfg": cases[i]["cfg"], "calls": cases[i]["calls"]} for w, i in slow[:5]]
    if len(ctx.notes["cases_stopped_after_120s"]) > max(3, len(cases) // 20):
        raise MachineryError(f"{len(ctx.notes['cases_stopped_after_120s'])} evolution cases did not finish within 120 s")
    ctx.notes["measured"] = {k: v for k, v in sorted(stats.items()) if k != "foreign"}
    ctx.notes["foreign_keys_seen"] = sorted(set(stats.get("foreign", [])))
    if not imag:
        res = pmap(_ps_conservation, [(ctx.seed, k) for k in range(6 if tier == "quick" else 24)], chunksize=1)
        for st_, o in res:
            if st_ != "ok":
                raise MachineryError("ps conservation worker failed: " + o)
            for c in o["cases"]:
                ctx.case(fingerprint=c, nontrivial=True)
            for key, what, detail in o["viol"]:
                ctx.violation(key, what, detail)
    _judge_adaptive(ctx, pid, atraces, cases)
    _judge_ps_schedule(ctx, pid, ptraces, cases)
    if not imag:
        moves = {}
        for way in ("one", "two"):
            cfg = tlc.make_cfg(constants=dict(NSteps=5, Way=f'"{way}"'), spec="Spec", invariants=["LagIsTime", "Balanced", "OneWay", "Emit"], properties=["Terminates"])
            r = tlc.run("CorrJob", cfg, mode="emit", vacuity=True, timeout=600)
            ctx.add_tlc(r, f"CorrJob {way}-way propagation")
            if r["violated"]:
                ctx.violation(f"C09:spec:CorrJob:{r['violated']}", "CorrJob violates " + str(r["violated"]), {"tlc": (r.get("error_text") or "")[:1500]})
            moves[way] = r["emitted"][0]["moves"]
        res = pmap(_spectra_cases, [(ctx.seed, k, moves) for k in range(2 if tier == "quick" else 8)], chunksize=1)
        worst = 0.0
        for st_, o in res:
            if st_ != "ok":
                raise MachineryError("spectra worker failed: " + o)
            for c in o["cases"]:
                ctx.case(fingerprint=c, nontrivial=True)
            for key, what, detail in o["viol"]:
                ctx.violation(key, what, detail)
            ctx.traces(o["traces"])
            worst = max([worst] + [m["err"] for m in o["meas"]])
        ctx.notes["corrjob_max_relative_error"] = worst
    ctx.sample(cases[len(cases) // 2])
    ctx.sample(cases[0])
    ctx.cov["rule"] = ("(configuration, call history) pairs enumerated by TLC from EvolveSpace (quick: one per configuration class; thorough: all, wide tableau/gauge sets, "
                       "<= 3 calls), each on one of 4 small systems (electron-phonon, spin, electron chains) with a generic full-bond initial state; non-trivial = more than "
                       "one call, adaptive stepping or a non-default input gauge; distinct = distinct pair")
    ctx.assumptions += ["accuracy thresholds: order-p schemes 1.5 * ncalls * tau^(p+1) with ||H|| = 1; exact-type schemes 1e-7 (Krylov) / 1e-6 (RK45) / 2e-6 (VMF) per call; "
                        "adaptive 3e-4 per call at adaptive_rtol = 1e-5; these are floating-point claims decided by the dense oracle (DESIGN section 6)",
                        "regularised one-site schemes are compared for accuracy only on full-bond generic states (sigma_min > 2e-2)"]
