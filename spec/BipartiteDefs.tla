---------------------------- MODULE BipartiteDefs ----------------------------
(* Pure definitions shared by Bipartite (algorithm model) and BipartiteEmit (case emission). *)
EXTENDS Integers, FiniteSets, Sequences, TLC, Json
CONSTANTS NU, NV
U == 1..NU
V == 1..NV
IsMatching(E, M) == /\ M \subseteq E
                    /\ \A e1, e2 \in M : e1 # e2 => (e1[1] # e2[1] /\ e1[2] # e2[2])
MatchSizes(E) == {Cardinality(M) : M \in {M \in SUBSET E : IsMatching(E, M)}}
MaxMatchSize(E) == CHOOSE k \in MatchSizes(E) : \A m \in MatchSizes(E) : m <= k
\* minimum vertex cover by brute force over SUBSET U x SUBSET V (cheaper than matchings for emission)
CoversOf(E) == {c \in (SUBSET U) \X (SUBSET V) : \A e \in E : e[1] \in c[1] \/ e[2] \in c[2]}
CoverSizesOf(E) == {Cardinality(c[1]) + Cardinality(c[2]) : c \in CoversOf(E)}
MinCoverSizeOf(E) == CHOOSE k \in CoverSizesOf(E) : \A m \in CoverSizesOf(E) : k <= m
\* matchV as a function V -> U \cup {0}
AsMatchV(M) == [v \in V |-> IF \E e \in M : e[2] = v THEN (CHOOSE e \in M : e[2] = v)[1] ELSE 0]

=============================================================================
