------------------------------ MODULE OpAlgebra ------------------------------
(* Symbolic operator algebra of renormalizer/model/op.py  (Op, OpSum) as a register machine.

   A TERM is [w |-> word, re, im]; a word is a sequence of letters <<symbol, dof>>; coefficients are Gaussian
   rationals with denominator 4 stored as integers (re, im) = 4 * coefficient, so that division by 2 is exact.
   A register holds [kind |-> "op" | "sum", ts |-> sequence of terms]  (an Op is a one-term sequence; an OpSum is
   a list with order and repetitions, exactly as the Python list subclass).
   Actions mirror the dunder methods line by line (type guards = the isinstance branches; anything else raises
   TypeError in the library and is not enabled here).  The DENOTATION of a register is the bag of its terms
   over SQUEEZED words (identity letters removed): the free algebra modulo "I is the unit".  The homomorphism
   claims of property C15 are action properties about Den.                                                   *)
EXTENDS Integers, Sequences, FiniteSets, TLC, Json
CONSTANTS Depth
Regs == 1..4

\* ---------------------------------------------------------------- words and bags
IsId(l) == l[1] = "I"
Squeeze(w) == SelectSeq(w, LAMBDA l : ~IsId(l))
Coef(B, w, i) == IF \E p \in B : p[1] = w THEN (CHOOSE p \in B : p[1] = w)[i] ELSE 0
Supp(B) == {p[1] : p \in B}
Mk(ws, re(_), im(_)) == {<<w, re(w), im(w)>> : w \in {x \in ws : re(x) # 0 \/ im(x) # 0}}
BAdd(A, B) == Mk(Supp(A) \cup Supp(B), LAMBDA w : Coef(A, w, 2) + Coef(B, w, 2), LAMBDA w : Coef(A, w, 3) + Coef(B, w, 3))
BScale4(A, k) == \* multiply by the scalar k = <<re, im>> / 4  (result kept scaled by 4: divide by 4, must be exact)
   {<<p[1], (k[1] * p[2] - k[2] * p[3]) \div 4, (k[1] * p[3] + k[2] * p[2]) \div 4>> : p \in A}
RECURSIVE BOfSeq(_)
BOfSeq(ts) == IF ts = <<>> THEN {} ELSE BAdd({<<Squeeze(Head(ts).w), Head(ts).re, Head(ts).im>>} \ {<<Squeeze(Head(ts).w), 0, 0>>}, BOfSeq(Tail(ts)))
Den(r) == BOfSeq(r.ts)
\* product of bags: concatenation of words, product of coefficients (scaled: /4)
BMul(A, B) == LET pairs == A \X B
                  ws == {pr[1][1] \o pr[2][1] : pr \in pairs}
                  re(w) == LET S == {pr \in pairs : pr[1][1] \o pr[2][1] = w} IN
                           LET f[T \in SUBSET S] == IF T = {} THEN 0 ELSE LET x == CHOOSE x \in T : TRUE IN
                                  (x[1][2] * x[2][2] - x[1][3] * x[2][3]) \div 4 + f[T \ {x}] IN f[S]
                  im(w) == LET S == {pr \in pairs : pr[1][1] \o pr[2][1] = w} IN
                           LET f[T \in SUBSET S] == IF T = {} THEN 0 ELSE LET x == CHOOSE x \in T : TRUE IN
                                  (x[1][2] * x[2][3] + x[1][3] * x[2][2]) \div 4 + f[T \ {x}] IN f[S]
              IN Mk(ws, re, im)

\* ---------------------------------------------------------------- scalars (value * 4) and their exactness guard
Scalars == {<<8, 0>>, <<0 - 4, 0>>, <<0, 4>>, <<2, 0>>}          \* 2, -1, i, 1/2
Div4(x) == x % 4 = 0
ScaleTerm(t, k) == [w |-> t.w, re |-> (k[1] * t.re - k[2] * t.im) \div 4, im |-> (k[1] * t.im + k[2] * t.re) \div 4]
ScaleOK(ts, k) == \A i \in 1..Len(ts) : /\ Div4(k[1] * ts[i].re - k[2] * ts[i].im) /\ Div4(k[1] * ts[i].im + k[2] * ts[i].re)
                                         /\ ((k[1] * ts[i].re - k[2] * ts[i].im) \div 4) \in -64..64
                                         /\ ((k[1] * ts[i].im + k[2] * ts[i].re) \div 4) \in -64..64
MulTerm(a, b) == [w |-> a.w \o b.w, re |-> (a.re * b.re - a.im * b.im) \div 4, im |-> (a.re * b.im + a.im * b.re) \div 4]
MulOK(a, b) == /\ Div4(a.re * b.re - a.im * b.im) /\ Div4(a.re * b.im + a.im * b.re) /\ Len(a.w) + Len(b.w) <= 4
               /\ ((a.re * b.re - a.im * b.im) \div 4) \in -64..64 /\ ((a.re * b.im + a.im * b.re) \div 4) \in -64..64

VARIABLES reg, steps, hist, which
vars == <<reg, steps, hist, which>>
T(w, re, im) == [w |-> w, re |-> re, im |-> im]
L(s, d) == <<s, d>>
AtomsA == <<[kind |-> "op", ts |-> <<T(<<L("X", 0)>>, 4, 0)>>],                                   \* X_0
            [kind |-> "op", ts |-> <<T(<<L("X", 0), L("Z", 0)>>, 8, 0)>>],                        \* 2 * "X Z" on [0, 0]
            [kind |-> "sum", ts |-> <<T(<<L("Z", 1)>>, 4, 0), T(<<L("I", 0)>>, 4, 0)>>],          \* Z_1 + I_0
            [kind |-> "sum", ts |-> <<>>]>>                                                        \* empty OpSum
AtomsB == <<[kind |-> "op", ts |-> <<T(<<L("I", 1)>>, 0 - 4, 0)>>],                                \* -I_1
            [kind |-> "op", ts |-> <<T(<<L("Z", 1), L("I", 0)>>, 4, 0)>>],                        \* "Z I" on [1, 0]
            [kind |-> "sum", ts |-> <<T(<<L("X", 0)>>, 4, 0), T(<<L("X", 0)>>, 0 - 4, 0)>>],      \* X_0 - X_0
            [kind |-> "sum", ts |-> <<T(<<L("Z", 1)>>, 0, 4), T(<<L("X", 0), L("Z", 1)>>, 2, 0)>>]>>  \* i Z_1 + 0.5 X_0 Z_1
\* non-commuting letters on a repeated DoF in both orders, and commuting letters on different DoFs in both orders
AtomsC == <<[kind |-> "op", ts |-> <<T(<<L("Z", 0)>>, 4, 0)>>],
            [kind |-> "op", ts |-> <<T(<<L("Z", 0), L("X", 0)>>, 4, 0)>>],
            [kind |-> "sum", ts |-> <<T(<<L("X", 0), L("Z", 0)>>, 4, 0), T(<<L("Z", 0), L("X", 0)>>, 8, 0)>>],
            [kind |-> "sum", ts |-> <<T(<<L("X", 0), L("Z", 1)>>, 4, 0), T(<<L("Z", 1), L("X", 0)>>, 4, 0)>>]>>
AtomsOf(x) == IF x = "A" THEN AtomsA ELSE IF x = "B" THEN AtomsB ELSE AtomsC
Init == which \in {"A", "B", "C"} /\ reg = AtomsOf(which) /\ steps = 0 /\ hist = <<>>

Put(r, v, ev) == /\ reg' = [reg EXCEPT ![r] = v] /\ steps' = steps + 1 /\ UNCHANGED which
                 /\ hist' = Append(hist, [ev EXCEPT !.res = v])
E(op, a, b, r, k) == [op |-> op, a |-> a, b |-> b, r |-> r, k |-> k, res |-> <<>>]
MapSeq(f(_), s) == [i \in 1..Len(s) |-> f(s[i])]
RECURSIVE FlatMul(_, _)
\* [a1*b1, a1*b2, ..., a2*b1, ...]   (OpSum.__mul__ with a list operand: for op1 in self: res.extend(op1 * other))
FlatMul(as, bs) == IF as = <<>> THEN <<>> ELSE [j \in 1..Len(bs) |-> MulTerm(Head(as), bs[j])] \o FlatMul(Tail(as), bs)

\* Op.__mul__/OpSum.__mul__/Op.__rmul__ with Op / OpSum / plain-list operands (a register of kind "sum" may be handed over as a
\* plain Python list: Op * list, OpSum * list, list * Op): Op*Op -> Op ; anything else -> OpSum, terms in operand order
Mul(a, b, r) == /\ \A i \in 1..Len(reg[a].ts), j \in 1..Len(reg[b].ts) : MulOK(reg[a].ts[i], reg[b].ts[j])
                /\ Len(reg[a].ts) * Len(reg[b].ts) <= 6
                /\ Put(r, [kind |-> IF reg[a].kind = "op" /\ reg[b].kind = "op" THEN "op" ELSE "sum", ts |-> FlatMul(reg[a].ts, reg[b].ts)],
                       E("Mul", a, b, r, <<0, 0>>))
\* x * k and k * x  (k: int / float / complex / NumPy scalar): kind preserved
MulScalar(a, k, left, r) == /\ ScaleOK(reg[a].ts, k)
                            /\ Put(r, [kind |-> reg[a].kind, ts |-> MapSeq(LAMBDA t : ScaleTerm(t, k), reg[a].ts)],
                                   E(IF left THEN "RMulScalar" ELSE "MulScalar", a, a, r, k))
\* OpSum.__truediv__ (Op has no division): multiply by 1/k ; only k = 2 and k = 1/2 keep the scaled integers exact
DivScalar(a, k, r) == /\ reg[a].kind = "sum" /\ k \in {<<8, 0>>, <<2, 0>>}
                      /\ LET inv == IF k = <<8, 0>> THEN <<2, 0>> ELSE <<8, 0>> IN
                         /\ ScaleOK(reg[a].ts, inv)
                         /\ Put(r, [kind |-> "sum", ts |-> MapSeq(LAMBDA t : ScaleTerm(t, inv), reg[a].ts)], E("Div", a, a, r, k))
\* Op + Op, Op + list, OpSum + Op, OpSum + list  -> OpSum, concatenation in operand order
Add(a, b, r) == /\ Len(reg[a].ts) + Len(reg[b].ts) <= 6
                /\ Put(r, [kind |-> "sum", ts |-> reg[a].ts \o reg[b].ts], E("Add", a, b, r, <<0, 0>>))
\* 0 + Op  and  Op + 0  (sum() support): OpSum([self])
AddZero(a, left, r) == /\ reg[a].kind = "op"
                       /\ Put(r, [kind |-> "sum", ts |-> reg[a].ts], E(IF left THEN "RAddZero" ELSE "AddZero", a, a, r, <<0, 0>>))
Neg(a, r) == Put(r, [kind |-> reg[a].kind, ts |-> MapSeq(LAMBDA t : ScaleTerm(t, <<0 - 4, 0>>), reg[a].ts)], E("Neg", a, a, r, <<0, 0>>))
Sub(a, b, r) == /\ Len(reg[a].ts) + Len(reg[b].ts) <= 6
                /\ Put(r, [kind |-> "sum", ts |-> reg[a].ts \o MapSeq(LAMBDA t : ScaleTerm(t, <<0 - 4, 0>>), reg[b].ts)],
                       E("Sub", a, b, r, <<0, 0>>))
\* OpSum.__iadd__: IN PLACE on register a (append / extend); every other register must keep its value (frame)
IAdd(a, b) == /\ reg[a].kind = "sum" /\ a # b /\ Len(reg[a].ts) + Len(reg[b].ts) <= 6
              /\ Put(a, [kind |-> "sum", ts |-> reg[a].ts \o reg[b].ts], E("IAdd", a, b, a, <<0, 0>>))

\* ---- OpSum.simplify(atol): squeeze identities; merge terms with equal (symbol, dofs) keeping first-occurrence order;
\*      drop terms with |factor| <= atol.  atol classes: 0 -> "zero", 1.0 -> "one" (|c| <= 1  <=>  re^2 + im^2 <= 16 scaled)
SqueezeTerm(t) == IF Squeeze(t.w) = <<>> /\ t.w # <<>> THEN [t EXCEPT !.w = << <<"I", t.w[1][2]>> >>] ELSE [t EXCEPT !.w = Squeeze(t.w)]
RECURSIVE Merge(_)
Merge(ts) == IF ts = <<>> THEN <<>>
             ELSE LET h == Head(ts)
                      same == SelectSeq(Tail(ts), LAMBDA t : t.w = h.w)
                      rest == SelectSeq(Tail(ts), LAMBDA t : t.w # h.w)
                      RECURSIVE SumRe(_), SumIm(_)
                      SumRe(s) == IF s = <<>> THEN 0 ELSE Head(s).re + SumRe(Tail(s))
                      SumIm(s) == IF s = <<>> THEN 0 ELSE Head(s).im + SumIm(Tail(s))
                  IN <<[w |-> h.w, re |-> h.re + SumRe(same), im |-> h.im + SumIm(same)]>> \o Merge(rest)
Keep(t, atol) == IF atol = "zero" THEN (t.re # 0 \/ t.im # 0) ELSE t.re * t.re + t.im * t.im > 16
Simplify(a, atol, r) == /\ reg[a].kind = "sum"
                        /\ Put(r, [kind |-> "sum", ts |-> SelectSeq(Merge(MapSeq(SqueezeTerm, reg[a].ts)), LAMBDA t : Keep(t, atol))],
                               E("Simplify", a, a, r, IF atol = "zero" THEN <<0, 0>> ELSE <<4, 0>>))

Next == /\ steps < Depth
        /\ \/ \E a, b, r \in Regs : Mul(a, b, r) \/ Add(a, b, r) \/ Sub(a, b, r)
           \/ \E a, r \in Regs, k \in Scalars, left \in BOOLEAN : MulScalar(a, k, left, r)
           \/ \E a, r \in Regs, k \in Scalars : DivScalar(a, k, r)
           \/ \E a, r \in Regs, left \in BOOLEAN : AddZero(a, left, r)
           \/ \E a, r \in Regs : Neg(a, r)
           \/ \E a, b \in Regs : IAdd(a, b)
           \/ \E a, r \in Regs, atol \in {"zero", "one"} : Simplify(a, atol, r)
Spec == Init /\ [][Next]_vars

\* ---------------------------------------------------------------- the homomorphism, as action properties about Den
Last == hist'[Len(hist')]
Hom == [][steps' = steps + 1 =>
            LET e == Last IN
            CASE e.op = "Mul" -> Den(reg'[e.r]) = BMul(Den(reg[e.a]), Den(reg[e.b]))
              [] e.op \in {"Add", "IAdd"} -> Den(reg'[e.r]) = BAdd(Den(reg[e.a]), Den(reg[e.b]))
              [] e.op = "Sub" -> Den(reg'[e.r]) = BAdd(Den(reg[e.a]), BScale4(Den(reg[e.b]), <<0 - 4, 0>>))
              [] e.op = "Neg" -> Den(reg'[e.r]) = BScale4(Den(reg[e.a]), <<0 - 4, 0>>)
              [] e.op \in {"MulScalar", "RMulScalar"} -> Den(reg'[e.r]) = BScale4(Den(reg[e.a]), e.k)
              [] e.op = "Div" -> BScale4(Den(reg'[e.r]), e.k) = Den(reg[e.a])
              [] e.op \in {"AddZero", "RAddZero"} -> Den(reg'[e.r]) = Den(reg[e.a])
              [] e.op = "Simplify" -> (e.k = <<0, 0>> => Den(reg'[e.r]) = Den(reg[e.a]))
              [] OTHER -> TRUE]_vars
\* simplify never leaves two terms with the same word, nor an identity letter inside a longer word, nor a dropped-size term
SimplifiedNF == [][(steps' = steps + 1 /\ Last.op = "Simplify") =>
                     LET ts == reg'[Last.r].ts IN
                     /\ \A i, j \in 1..Len(ts) : i # j => ts[i].w # ts[j].w
                     /\ \A i \in 1..Len(ts) : Len(ts[i].w) > 1 => \A n \in 1..Len(ts[i].w) : ~IsId(ts[i].w[n])]_vars
\* frame: only the result register changes
Frame == [][steps' = steps + 1 => \A x \in Regs : x # Last.r => reg'[x] = reg[x]]_vars

EmitLeaf == (steps = Depth) => PrintT(<<"EMIT", ToJson([atoms |-> which, init |-> AtomsOf(which), hist |-> hist])>>)
EmitLeafSim == (steps = Depth /\ RandomElement(1..40) = 1) => PrintT(<<"EMIT", ToJson([atoms |-> which, init |-> AtomsOf(which), hist |-> hist])>>)
=============================================================================
