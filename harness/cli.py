"""./check <Cxx> --tier quick|thorough [--replay path]"""
import argparse
import importlib
import json
import os
import sys
import traceback

from .common import Ctx, MachineryError, seed_env, VERIF


def main(argv=None):
    ap = argparse.ArgumentParser()
    ap.add_argument("pid")
    ap.add_argument("--tier", default=os.environ.get("VERIF_TIER", "quick"), choices=["quick", "thorough"])
    ap.add_argument("--replay", default=None)
    a = ap.parse_args(argv)
    pid = a.pid.upper()
    try:
        mod = importlib.import_module(f"harness.checks.{pid.lower()}")
    except ImportError as e:
        print(f"no check for {pid}: {e}")
        return 2
    ctx = Ctx(pid, a.tier, seed_env(), mod.LEVEL)
    try:
        if a.replay:
            with open(a.replay) as fh:
                rp = json.load(fh)
            # a replay file names the violation key, the seed and the tier: every case is a deterministic function of
            # (seed, tier, TLC enumeration), so the recorded case is re-executed by re-running the check at that seed and
            # tier and reporting that key only (exit 1 + VIOLATION if it is reproduced, exit 0 if not); evidence untouched
            ctx = Ctx(pid, rp.get("tier", a.tier), int(rp.get("seed", seed_env())), mod.LEVEL)
            ctx.only_key = rp["key"]
            print(f"replaying {rp['key']} (seed {ctx.seed}, tier {ctx.tier}): {rp.get('what', '')[:200]}")
            mod.run(ctx)
        else:
            mod.run(ctx)
    except MachineryError as e:
        print(f"MACHINERY-FAILURE property={pid}: {e}")
        traceback.print_exc()
        return 2
    except Exception as e:  # noqa
        print(f"MACHINERY-FAILURE property={pid}: unexpected {type(e).__name__}: {e}")
        traceback.print_exc()
        return 2
    return ctx.finalize()


if __name__ == "__main__":
    sys.exit(main())
