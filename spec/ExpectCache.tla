----------------------------- MODULE ExpectCache -----------------------------
(* Mps.expectations fast path (mps/mps.py:527-575, _construct_freq_environ 2103-2146, _get_freq_environ 2149-2169).
   An operator is a word of N site-symbols (= the hash sequence of its site tensors).                        *)
EXTENDS Integers, Sequences, FiniteSets, TLC, Json
CONSTANTS N, A, MaxOps
Word == [1..N -> 1..A]
VARIABLES ops, cacheL, cacheR, done
vars == <<ops, cacheL, cacheR, done>>

Prefix(w, i) == SubSeq(w, 1, i)                          \* mpo_hash[:i]
RevSuffix(w, i) == [k \in 1..i |-> w[N + 1 - k]]         \* reversed(mpo_hash[-i:])
KeysL == {Prefix(ops[j], i) : j \in 1..Len(ops), i \in 1..N}
KeysR == {RevSuffix(ops[j], i) : j \in 1..Len(ops), i \in 1..N}
CountL(k) == Cardinality({j \in 1..Len(ops) : Prefix(ops[j], Len(k)) = k})
CountR(k) == Cardinality({j \in 1..Len(ops) : RevSuffix(ops[j], Len(k)) = k})

\* most_common.sort(key=(-count, len)); ties in arbitrary (dict) order; stop at count 1; stop when len(mps) < #cached
\* => the cached set is any prefix of some linear order compatible with the key, of size <= N + 1
Before(cnt(_), a, b) == cnt(a) > cnt(b) \/ (cnt(a) = cnt(b) /\ Len(a) < Len(b))
Cuts(keys, cnt(_)) ==
  LET elig == {k \in keys : cnt(k) >= 2} IN
  { C \in SUBSET elig :
      /\ Cardinality(C) <= N + 1
      /\ \A a \in C, b \in elig \ C : ~Before(cnt, b, a) }        \* downward closed w.r.t. the sort key

Init == /\ ops \in UNION {[1..n -> Word] : n \in 1..MaxOps}
        /\ cacheL \in Cuts(KeysL, CountL) /\ cacheR \in Cuts(KeysR, CountR)
        /\ done = FALSE

\* result[tuple(m_hashes[:-1])] must exist when m_hashes is contracted
ClosedL == \A k \in cacheL : Len(k) > 1 => Prefix(k, Len(k) - 1) \in cacheL
ClosedR == \A k \in cacheR : Len(k) > 1 => SubSeq(k, 1, Len(k) - 1) \in cacheR

\* _get_freq_environ: longest cached prefix (walk stops at the first miss), bounded by max_length
RECURSIVE Walk(_, _, _, _)
Walk(cache, seq, i, maxlen) == IF i < Len(seq) /\ i + 1 <= maxlen /\ SubSeq(seq, 1, i + 1) \in cache
                               THEN Walk(cache, seq, i + 1, maxlen) ELSE i
LIdx(w) == Walk(cacheL, w, 0, N + 1)                                   \* number of sites taken from the left cache
RLen(w) == Walk(cacheR, RevSuffix(w, N), 0, N - (LIdx(w) - 1) - 1)     \* max_length = len(mpo) - l_idx - 1, l_idx = LIdx-1
\* sites covered: left cache 1..LIdx, explicit middle LIdx+1..N-RLen, right cache N-RLen+1..N
ExactlyOnce == \A j \in 1..Len(ops) : LET w == ops[j] IN LIdx(w) + RLen(w) <= N
Check == done' = TRUE /\ UNCHANGED <<ops, cacheL, cacheR>>
Spec == Init /\ [][Check]_vars
Inv == ClosedL /\ ClosedR /\ ExactlyOnce
\* ---- emission: every operator list of the scope, once
EmitInit == /\ ops \in UNION {[1..n -> Word] : n \in 1..MaxOps} /\ cacheL = {} /\ cacheR = {} /\ done = FALSE
EmitOps == PrintT(<<"EMIT", ToJson([ops |-> ops])>>)
=============================================================================
