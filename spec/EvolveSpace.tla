----------------------------- MODULE EvolveSpace -----------------------------
(* Configuration and call-history space of Mps.evolve / MpDm.evolve (renormalizer/mps/mps.py, utils/configs.py).

   A configuration is a record of the choices a caller can make; Accepted transcribes the combinations the library
   accepts (its own asserts / documented restrictions, each cited).  A history splits the total time T (in integer
   quanta) into 1..MaxSplit successive calls, optionally switching the scheme between calls.  The abstract value after
   a call is U(elapsed) psi with U(s) U(t) = U(s + t): the invariant TimeAdds is what "the result does not depend on
   how t is split into successive calls" means at the level of the specification; the dense oracle evaluates it.
   TLC enumerates the whole accepted space and emits every (configuration, history).                           *)
EXTENDS Integers, Sequences, FiniteSets, TLC, Json
CONSTANTS T, MaxSplit, Wide      \* Wide = TRUE: every tableau / every gauge; FALSE: a representative subset

Schemes == {"pc_taylor", "pc_rk4", "pc_rk", "ps", "ps2", "vmf", "mu_vmf", "cmf"}
RkSingle == IF Wide THEN {"Forward_Euler", "midpoint_RK2", "Heun_RK2", "Ralston_RK2", "Kutta_RK3", "C_RK4", "38rule_RK4", "Fehlberg5"}
            ELSE {"Heun_RK2", "Kutta_RK3", "C_RK4", "Fehlberg5"}
RkPair == {"RKF45", "Cash-Karp45"}
Gauges == {"fresh", "cano1", "moved", "skewL", "skewR"}    \* skew: a non-isometric gauge (X, X^-1 inserted on a bond) under flags that claim
                                                           \* left-canonical (centre at the end, to_right = FALSE) / right-canonical (centre 0, to_right = TRUE)

Cfg == [scheme : Schemes, solver : {"krylov", "RK45"}, adaptive : BOOLEAN, imag : BOOLEAN, rk : RkSingle \cup RkPair,
        cmf : {"first", "mid", "trapz"}, force_ovlp : BOOLEAN, td : BOOLEAN, form : {"mps", "mpdm"}, gauge : Gauges]

Accepted(c) ==
  \* _evolve_prop_and_compress_tdrk asserts len(order) = 2 iff adaptive (mps.py:735-744)
  /\ (c.scheme = "pc_rk" => ((c.rk \in RkPair) <=> c.adaptive))
  /\ (c.scheme # "pc_rk" => c.rk = "C_RK4")
  \* the local integrator is selectable for the projector-splitting and CMF schemes only
  /\ (c.scheme \notin {"ps", "ps2", "cmf"} => c.solver = "krylov")
  /\ (c.scheme # "cmf" => c.cmf = "mid")
  /\ (c.scheme \notin {"vmf", "mu_vmf", "cmf"} => c.force_ovlp)
  \* a time-dependent Hamiltonian callable is consumed by tdrk4, tdrk and the VMF integrand only; real time
  /\ (c.td => c.scheme \in {"pc_rk4", "pc_rk", "vmf", "mu_vmf"} /\ ~c.imag)
  \* adaptive stepping: Taylor P&C, general RK, and the @adaptive_tdvp decorated schemes
  /\ (c.adaptive => c.scheme \in {"pc_taylor", "pc_rk", "ps", "ps2", "cmf"})
  \* one-site schemes on a density operator created from a state keep the state's bonds: covered with full-bond purifications
  /\ (c.form = "mpdm" => c.scheme \in {"pc_taylor", "pc_rk4", "ps", "ps2", "mu_vmf"} /\ ~c.td /\ c.gauge = "fresh")
  /\ (c.gauge # "fresh" => c.form = "mps")
  \* overlap forcing on the vectorised density operator makes the VMF equations extremely stiff (minutes per step): not explored
  /\ (c.form = "mpdm" /\ c.scheme = "mu_vmf" => ~c.force_ovlp)
  \* adaptive CMF costs ~100 local evolutions per call: explored from the default gauge only
  /\ (c.adaptive /\ c.scheme = "cmf" => c.gauge = "fresh")
  \* the propagate-and-compress family canonicalises/compresses its input, which ASSERTS that the quantum-number centre sits
  \* at the start of the sweep (mp.py:911): a moved centre is outside their accepted inputs
  /\ (c.gauge \in {"moved", "skewL", "skewR"} => c.scheme \in {"ps", "ps2", "vmf", "mu_vmf", "cmf"})

VARIABLES cfg, calls, elapsed
vars == <<cfg, calls, elapsed>>
Init == cfg \in {c \in Cfg : Accepted(c)} /\ calls = <<>> /\ elapsed = 0
\* one call evolves by q quanta, possibly after switching to another scheme of the same family of accepted configs
Call(q, sw) == /\ elapsed + q <= T /\ Len(calls) < MaxSplit /\ q >= 1
               /\ (elapsed + q < T => Len(calls) + 1 < MaxSplit)
               /\ calls' = Append(calls, [q |-> q, scheme |-> sw])
               /\ elapsed' = elapsed + q /\ UNCHANGED cfg
SwitchTargets(c) == IF c.td \/ c.form = "mpdm" \/ c.adaptive \/ c.gauge \in {"moved", "skewL", "skewR"} THEN {c.scheme} ELSE {c.scheme, "ps", "pc_rk4"}
Next == \E q \in 1..T, sw \in Schemes : sw \in SwitchTargets(cfg) /\ Call(q, sw)
Spec == Init /\ [][Next]_vars
RECURSIVE SumQ(_)
SumQ(s) == IF s = <<>> THEN 0 ELSE Head(s).q + SumQ(Tail(s))
TimeAdds == elapsed = SumQ(calls) /\ elapsed <= T
Done == elapsed = T
Emit == Done => PrintT(<<"EMIT", ToJson([cfg |-> cfg, calls |-> calls])>>)
=============================================================================
