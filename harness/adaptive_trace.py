"""code -> spec for the adaptive step-size controllers: the library logs every trial, rejection and acceptance at DEBUG
level on the logger `renormalizer.mps.mps`; the records are captured with a logging handler (no hook in the repository),
turned into the event vocabulary of AdaptiveTrace.tla in integer time units and judged by TLC in one batch."""
import logging
import re

UNITS = 10 ** 6
_NUM = r"(\(?[-+0-9.eEj]+\)?)"
_TRY = re.compile(r"^guess_dt: " + _NUM + r", try time step size: " + _NUM)
_REJ = re.compile(r"^evolution not converged, new guess_dt: " + _NUM)
_CONV = re.compile(r"^evolution converged, new guess_dt: " + _NUM)
_SUB_TDVP = re.compile(r"^sub-step " + _NUM + r" further, evolved: .*new guess_dt: " + _NUM)
_SUB = re.compile(r"^sub-step " + _NUM + r" further, remaining")


class LogRecorder(logging.Handler):
    def __init__(self):
        super().__init__(level=logging.DEBUG)
        self.messages = []

    def emit(self, record):
        try:
            self.messages.append(record.getMessage())
        except Exception:
            pass

    def __enter__(self):
        self.logger = logging.getLogger("renormalizer.mps.mps")
        self.old = (self.logger.level, self.logger.propagate, logging.root.manager.disable)
        logging.disable(logging.NOTSET)
        self.logger.setLevel(logging.DEBUG)
        self.logger.propagate = False
        self.logger.addHandler(self)
        return self

    def __exit__(self, *a):
        self.logger.removeHandler(self)
        self.logger.setLevel(self.old[0])
        self.logger.propagate = self.old[1]
        logging.disable(self.old[2])


def _q(text, target):
    """|value| / |target| in integer units."""
    v = complex(text.strip("()")) if "j" in text else float(text)
    return int(round(abs(v) / abs(target) * UNITS))


def events(messages, target):
    """-> list of event dicts, or None when the call did not go through an adaptive controller."""
    out = []
    for m in messages:
        mt = _TRY.match(m)
        if mt:
            out.append({"ev": "try", "guess": _q(mt.group(1), target), "dt": _q(mt.group(2), target)})
            continue
        mt = _REJ.match(m)
        if mt:
            out.append({"ev": "reject", "guess": _q(mt.group(1), target), "dt": 0})
            continue
        mt = _SUB_TDVP.match(m)
        if mt:
            out.append({"ev": "accept", "guess": _q(mt.group(2), target), "dt": 0})
            continue
        mt = _CONV.match(m)
        if mt:
            out.append({"ev": "last", "guess": _q(mt.group(1), target), "dt": 0})
            continue
        if _SUB.match(m) and out and out[-1]["ev"] == "last":
            out[-1]["ev"] = "accept"          # "evolution converged" followed by "sub-step ... remaining": more time remains
    return out or None
