"""C07 — observables computed from the network equal their dense definitions.

ExpectCache.tla models the frequency-ranked environment cache of Mps.expectations (prefix/suffix counting, the sort key,
any admissible cut, the longest-cached-prefix walk bounded by max_length): TLC checks for every list of <= 3-4 operator
words over 3 sites x 2 symbols and every admissible cut that the cached keys are prefix closed (no KeyError) and that
left cache + explicit middle + right cache cover every site exactly once.  TLC emits every operator list; each is turned
into real Mpo objects and the batched fast path is compared with the one-by-one path and with the dense value
(real/complex states, Mps and MpDm, any gauge, bra != ket, complex operators, bond dimension > 1 variants).
The (l_idx, r_idx) pairs used by the real fast path are recorded and judged with the spec's ExactlyOnce predicate.
RDMs, occupations and entropies are compared with dense partial traces.
"""
import itertools
import json

import numpy as np

from .. import tlc
from ..common import pmap, MachineryError, bootstrap, rng_for

LEVEL = "model_checking"


def _vn(p):
    p = np.asarray(p, dtype=float)
    p = p[p > 1e-14]
    return float(-(p * np.log(p)).sum())


def _expect_chunk(args):
    bootstrap()
    from renormalizer.model import Op
    from renormalizer.mps import Mpo, MpDm
    import renormalizer.mps.mps as mpsmod
    from .. import states as st, concretize as cz
    lists, seed, tier = args
    out = {"cases": [], "viol": [], "lr": []}
    N = 3
    for li, ops in lists:
        rng = rng_for(seed, "c07", li)
        fam = ["spin", "elec", "eph"][li % 3]
        model, basis, alphas = st.chain_model(fam, N, variant=li % 2)
        qntot = st.best_sector(basis)
        # words -> Mpo ; symbol ids 1..2 ; variant: complex factor, or bond dimension > 1 by adding a second word times 0
        mpos, dens = [], []
        for wi, w in enumerate(ops):
            f = 1.0 if (li + wi) % 3 else (0.5 + 0.5j)
            terms = [(tuple(w), 1.0)]
            op, site = cz.word_to_op(tuple(w), alphas, 1.0, None)
            mpo = Mpo(model, op if op is not None else cz.identity_op(basis, 0, 1.0, model.qn_size))
            if f != 1.0:
                mpo = mpo.scale(f)        # complex operator (same site-tensor hashes except at the scaled site)
            mpos.append(mpo)
            dens.append(f * cz.dense_terms(terms, basis, alphas))
        for kind in ("mps", "mpdm"):
            for cplx in (False, True):
                for gauge in ("fresh", "cano1", ("moved", 1)):
                    if tier == "quick" and (li + cplx + (kind == "mpdm") + (gauge != "fresh")) % 3 != 0:
                        continue
                    detail = {"ops": ops, "family": fam, "kind": kind, "complex": cplx, "gauge": gauge, "li": li}
                    try:
                        ket = st.random_mps(model, qntot, 4, (seed, "c07k", li, cplx), cplx=cplx).scale(1.3)
                        bra = st.random_mps(model, qntot, 3, (seed, "c07b", li, cplx), cplx=cplx)
                        if kind == "mpdm":
                            ket = MpDm.from_mps(st.random_mps(model, qntot, 4, (seed, "c07k", li, cplx)))
                            bra = MpDm.from_mps(st.random_mps(model, qntot, 3, (seed, "c07b", li, cplx)))
                            if cplx:
                                ket, bra = st.complexify(ket, rng), st.complexify(bra, rng)
                        st.to_gauge(ket, gauge)
                        kd = cz.mps_dense(ket) / ket.coeff
                        for bra_mode in ("self", "other"):
                            b = None if bra_mode == "self" else bra.conj()
                            bd = kd if b is None else cz.mps_dense(bra) / bra.coeff
                            # record the (l_idx, r_idx) the fast path uses
                            calls = []
                            orig = mpsmod._get_freq_environ

                            def rec(*a, _o=orig, **kw):
                                # signature-agnostic recorder (internal helper; only the domain tag and the returned index are read)
                                res = _o(*a, **kw)
                                try:
                                    dom = kw.get("domain") or [x for x in a if isinstance(x, str) and x in ("L", "R")][0]
                                    calls.append((dom, int(res[1])))
                                except Exception:
                                    pass
                                return res
                            mpsmod._get_freq_environ = rec
                            try:
                                fast = np.asarray(ket.expectations(mpos, self_conj=b, opt=True))
                            finally:
                                mpsmod._get_freq_environ = orig
                            slow = np.asarray(ket.expectations(mpos, self_conj=b, opt=False))
                            if kind == "mps":
                                ref = np.array([np.vdot(bd, d @ kd) for d in dens])
                            else:
                                ref = np.array([np.trace(bd.conj().T @ (d @ kd)) for d in dens])
                            out["cases"].append(json.dumps([ops, fam, kind, cplx, str(gauge), bra_mode]))
                            sc = np.abs(ref).max() + np.linalg.norm(kd) * np.linalg.norm(bd) + 1e-30
                            if np.abs(fast - slow).max() > 1e-10 * sc:
                                out["viol"].append(("C07:expectations:fast-vs-slow", f"batched fast path {fast} differs from the one-by-one path {slow}", dict(detail, bra=bra_mode)))
                            if np.abs(slow - ref).max() > 1e-10 * sc:
                                out["viol"].append(("C07:expectation:dense", f"expectation {slow} differs from the dense value {ref}", dict(detail, bra=bra_mode)))
                            elif np.abs(fast - ref).max() > 1e-10 * sc:
                                out["viol"].append(("C07:expectations:dense", f"batched expectations {fast} differ from the dense values {ref}", dict(detail, bra=bra_mode)))
                            ls = [i for d, i in calls if d == "L"]
                            rs = [i for d, i in calls if d == "R"]
                            for l, r in zip(ls, rs):
                                out["lr"].append((N, l, r))
                    except Exception as e:
                        import traceback
                        out["viol"].append((f"C07:expectations:raises:{type(e).__name__}", f"{type(e).__name__}: {e} {traceback.format_exc(limit=2).splitlines()[-2].strip()}", detail))
    return out


def _rdm_chunk(args):
    bootstrap()
    from renormalizer.mps import MpDm, Mpo
    from renormalizer.model import Op
    from .. import states as st, concretize as cz
    seed, k, tier = args
    out = {"cases": [], "viol": []}
    rng = rng_for(seed, "c07rdm", k)
    fam = ["spin", "elec", "eph", "multi"][k % 4]
    N = 3 + (k // 4) % 3
    model, basis, alphas = st.chain_model(fam, N, variant=k % 2)
    dims = [b.nbas for b in basis]
    qntot = st.best_sector(basis)
    for cplx in (False, True):
        for gauge in ("fresh", "cano1", ("moved", N // 2)):
            detail = {"family": fam, "N": N, "complex": cplx, "gauge": gauge, "k": k}
            try:
                m = st.random_mps(model, qntot, 5, (seed, "c07r", k, cplx), cplx=cplx)
                m = m.add(st.random_mps(model, qntot, 4, (seed, "c07r2", k, cplx), cplx=cplx).scale(0.6j if cplx else 0.6))
                m.ensure_left_canonical()
                nrm = m.mp_norm
                # normalised, and unnormalised with norm above and below 1 (entropies refer to the normalised reduced operators)
                amp = [1.0, 3.0, 0.3][(k + int(cplx)) % 3]
                detail["norm"] = amp
                m = m.scale(amp / nrm)
                st.to_gauge(m, gauge)
                psi = (cz.mps_dense(m) / m.coeff).reshape(dims)
                out["cases"].append(json.dumps(detail))
                letters = "abcdefgh"[:N]
                # 1-site
                r1 = m.calc_1site_rdm()
                for i in range(N):
                    up = letters.upper()
                    sub_b = letters[:i] + up[i] + letters[i + 1:]
                    rho = np.einsum(f"{letters},{sub_b}->{letters[i]}{up[i]}", psi, psi.conj())       # rho[ket, bra]
                    if np.linalg.norm(r1[i] - rho.T) > 1e-10:
                        out["viol"].append(("C07:rdm:1site", f"calc_1site_rdm()[{i}] differs from the dense partial trace (library convention rdm[bra, ket]) by {np.linalg.norm(r1[i] - rho.T):.2e}", detail))
                        break
                    if cplx and np.linalg.norm(rho - rho.T) > 1e-8 and np.linalg.norm(r1[i] - rho) > 1e-10:
                        out["viol"].append(("C07:rdm:transposed-for-complex-states", "1-site RDM is the transpose of Tr_rest |psi><psi| for a complex state", detail))
                r2 = m.calc_2site_rdm()
                for i, j in itertools.combinations(range(N), 2):
                    up = letters.upper()
                    sub_b = "".join(up[x] if x in (i, j) else letters[x] for x in range(N))
                    rho = np.einsum(f"{letters},{sub_b}->{letters[i]}{letters[j]}{up[i]}{up[j]}", psi, psi.conj()).reshape(dims[i] * dims[j], -1)
                    if np.linalg.norm(r2[(i, j)] - rho.T) > 1e-10:
                        out["viol"].append(("C07:rdm:2site:" + ("adjacent" if j == i + 1 else "distant"),
                                            f"calc_2site_rdm()[({i},{j})] differs from the dense partial trace by {np.linalg.norm(r2[(i, j)] - rho.T):.2e}", detail))
                        break
                # entropies
                e1 = m.calc_entropy("1site")
                for i in range(N):
                    rho = np.einsum(f"{letters},{letters[:i] + 'Z' + letters[i + 1:]}->{letters[i]}Z", psi, psi.conj())
                    if abs(e1[i] - _vn(np.linalg.eigvalsh(rho) / np.trace(rho).real)) > 1e-8:
                        out["viol"].append(("C07:entropy:1site", f"1-site entropy {e1[i]} differs from dense {_vn(np.linalg.eigvalsh(rho) / np.trace(rho).real)}", detail))
                        break
                e2 = m.calc_entropy("2site")
                s2 = {}
                for i, j in itertools.combinations(range(N), 2):
                    sub_b = "".join("YZ"[(i, j).index(x)] if x in (i, j) else letters[x] for x in range(N))
                    rho = np.einsum(f"{letters},{sub_b}->{letters[i]}{letters[j]}YZ", psi, psi.conj()).reshape(dims[i] * dims[j], -1)
                    s2[(i, j)] = _vn(np.linalg.eigvalsh(rho) / np.trace(rho).real)
                    if abs(e2[(i, j)] - s2[(i, j)]) > 1e-8:
                        out["viol"].append(("C07:entropy:2site", f"2-site entropy of ({i},{j}) {e2[(i, j)]} differs from dense {s2[(i, j)]}", detail))
                        break
                mut = m.calc_entropy("mutual")
                for i, j in itertools.combinations(range(N), 2):
                    ref = (e1[i] + e1[j] - s2[(i, j)]) / 2
                    if abs(mut[i, j] - ref) > 1e-8 or abs(mut[j, i] - ref) > 1e-8:
                        out["viol"].append(("C07:entropy:mutual", f"mutual entropy ({i},{j}) = {mut[i, j]} differs from (s_i + s_j - s_ij)/2 = {ref}", detail))
                        break
                be = m.calc_entropy("bond")
                for b in range(1, N):
                    sv = np.linalg.svd(psi.reshape(int(np.prod(dims[:b])), -1), compute_uv=False)
                    if abs(be[b - 1] - _vn(sv ** 2 / np.sum(sv ** 2))) > 1e-8:
                        out["viol"].append(("C07:entropy:bond", f"bond entropy at bond {b} = {be[b - 1]} differs from dense {_vn(sv ** 2 / np.sum(sv ** 2))}", detail))
                        break
                # occupations and electronic RDM
                if model.n_edofs > 0:
                    occ = np.asarray(m.e_occupations)
                    ref = []
                    for d in model.e_dofs:
                        md = Mpo(model, Op(r"a^\dagger a", d)).todense()
                        ref.append(np.vdot(psi.reshape(-1), md @ psi.reshape(-1)).real)
                    if np.abs(occ - np.array(ref)).max() > 1e-10:
                        out["viol"].append(("C07:e_occupations", f"e_occupations {occ} differ from dense {ref}", detail))
                    er = m.calc_edof_rdm()
                    for a_, da in enumerate(model.e_dofs):
                        for b_, db in enumerate(model.e_dofs):
                            md = Mpo(model, Op(r"a^\dagger a", [da, db])).todense()
                            ref = np.vdot(psi.reshape(-1), md @ psi.reshape(-1))
                            if abs(er[a_, b_] - ref) > 1e-10:
                                out["viol"].append(("C07:edof_rdm", f"calc_edof_rdm()[{a_},{b_}] = {er[a_, b_]} differs from <psi|a+_{a_} a_{b_}|psi> = {ref}", detail))
                                break
                if model.n_vdofs > 0:
                    occ = np.asarray(m.ph_occupations)
                    ref = []
                    for d in model.v_dofs:
                        md = Mpo(model, Op("n", d)).todense()
                        ref.append(np.vdot(psi.reshape(-1), md @ psi.reshape(-1)).real)
                    if np.abs(occ - np.array(ref)).max() > 1e-10:
                        out["viol"].append(("C07:ph_occupations", f"ph_occupations {occ} differ from dense {ref}", detail))
                # MpDm form of the same state: RDMs of the purified/ vectorised object
                rho_m = MpDm.from_mps(st.random_mps(model, qntot, 3, (seed, "c07d", k)))
                if cplx:
                    rho_m = st.complexify(rho_m, rng)
                D = cz.mps_dense(rho_m) / rho_m.coeff          # matrix (up, down)
                pd = [d * d for d in dims]
                T = D.reshape(dims + dims).transpose([x for i in range(N) for x in (i, N + i)]).reshape(pd)
                r1d = rho_m.calc_1site_rdm()
                for i in range(N):
                    rho = np.einsum(f"{letters},{letters[:i] + 'Z' + letters[i + 1:]}->{letters[i]}Z", T, T.conj())
                    # the density-operator form traces the ancilla (down) index of the site as well
                    rho = np.einsum("udvd->uv", rho.reshape(dims[i], dims[i], dims[i], dims[i]))
                    got = np.asarray(r1d[i])
                    if got.shape != rho.shape or np.linalg.norm(got - rho.T) > 1e-10:
                        out["viol"].append(("C07:rdm:1site:mpdm", f"MpDm calc_1site_rdm()[{i}] differs from the dense partial trace by {np.linalg.norm(got - rho.T):.2e}", detail))
                        break
            except Exception as e:
                import traceback
                out["viol"].append((f"C07:observable-raises:{type(e).__name__}", f"{type(e).__name__}: {e} | {traceback.format_exc(limit=2).splitlines()[-2].strip()}", detail))
    return out


def run(ctx):
    tier = ctx.tier
    K = 3 if tier == "quick" else 4
    cfg = tlc.make_cfg(constants=dict(N=3, A=2, MaxOps=K), spec="Spec", invariants=["Inv"])
    r = tlc.run("ExpectCache", cfg, vacuity=True, timeout=3000)
    ctx.add_tlc(r, f"ExpectCache N=3, 2 symbols, <= {K} operators, every admissible cut")
    if r["violated"]:
        ctx.violation(f"C07:spec:{r['violated']}", "ExpectCache violates " + r["violated"], {"tlc": r.get("error_text", "")[:2000]})
    cfg = tlc.make_cfg(constants=dict(N=3, A=2, MaxOps=K), init="EmitInit", next_="Check", invariants=["EmitOps"])
    e = tlc.run("ExpectCache", cfg, mode="emit", timeout=3000)
    ctx.add_tlc(e, "emit operator lists")
    seen = {}
    for x in e["emitted"]:
        seen.setdefault(json.dumps(x["ops"]), x["ops"])
    lists = list(enumerate(seen.values()))
    # symbol id 0 (identity) does not occur in Word == 1..A: add lists with identities by mapping symbol 2 -> identity on odd lists
    lists = [(i, [[(0 if (s == 2 and i % 2) else s) for s in w] for w in ops]) for i, ops in lists]
    if tier == "quick" and len(lists) > 400:
        import random
        lists = random.Random(ctx.seed).sample(lists, 400)
    n = 32
    res = pmap(_expect_chunk, [(lists[i::n], ctx.seed, tier) for i in range(n) if lists[i::n]], chunksize=1)
    lr = []
    for st_, o in res:
        if st_ != "ok":
            raise MachineryError("expectations worker failed: " + o)
        for c in o["cases"]:
            ctx.case(fingerprint="exp" + c, nontrivial=True)
        for key, what, detail in o["viol"]:
            ctx.violation(key, what, detail)
        lr += o["lr"]
    # code -> spec: the (l_idx, r_idx) the real fast path used must satisfy the spec's ExactlyOnce: l_idx < r_idx, both in range
    for (N, l, r_) in lr:
        ctx.traces(1)
        if not (-1 <= l < r_ <= N):
            ctx.drift("C07:expectations:coverage", f"fast path used cached environments up to l_idx={l} and from r_idx={r_} on {N} sites: a site is covered twice or never", {"N": N, "l": l, "r": r_})
    ctx.notes["fast_path_lookups_checked"] = len(lr)
    res = pmap(_rdm_chunk, [(ctx.seed, k, tier) for k in range(16 if tier == "quick" else 64)], chunksize=1)
    for st_, o in res:
        if st_ != "ok":
            raise MachineryError("rdm worker failed: " + o)
        for c in o["cases"]:
            ctx.case(fingerprint="rdm" + c, nontrivial=True)
        for key, what, detail in o["viol"]:
            ctx.violation(key, what, detail)
    ctx.sample({"operator_list_from_TLC": lists[len(lists) // 2][1]})
    ctx.sample({"rdm_case": {"family": "eph", "N": 4, "complex": True, "gauge": ["moved", 2]}})
    ctx.cov["rule"] = ("exp: every operator list enumerated by TLC (<= 3-4 words over 3 sites x 2 symbols (+identity), any order, repetitions) x model family x "
                       "Mps/MpDm x real/complex x gauge x bra = / != ket; rdm: random sector states (4 families, 3-5 sites, real/complex, 3 gauges) with every "
                       "site / site pair; non-trivial = all; distinct = distinct tuple")
    ctx.assumptions += ["expectation values are compared in the library's convention (tensor part, prefactor excluded)",
                        "chain RDMs are returned as rdm[bra, ket] (transpose of Tr_rest|psi><psi|): recorded as a known finding for complex states, regression-checked in that convention"]
