"""C14 — saved states reload identically; result dumps survive a crash.

Part A (fault enumeration, DumpProtocol):
  1. TLC checks Recoverable / Fresh on the protocol model for every crash point (between any two FS calls and
     inside the write), every step, <= 2 restarts into the left-over directory, <= 1 swallowed IOError.
     The model of the pinned ("rotate") protocol is kept as a regression config that MUST fail.
  2. spec -> code: every reachable crash state emitted by TLC is replayed on a real temporary directory with the
     real TdMpsJob.dump_dict (deaths injected as BaseException at the enumerated FS call, truncated archive for a
     death inside the write); the directory found by loading the archives must equal the spec state.
  3. code -> spec: the FS-call traces recorded during those real runs are validated by TLC (DumpProtocolTrace).
Part B (round trip): dump/load of chain states, density operators and tree states in every gauge.
"""
import json
import os
import tempfile

from .. import tlc
from ..common import pmap, MachineryError, bootstrap, rng_for

LEVEL = "fault_enumeration"


def detect_protocol():
    """Which protocol does the tree under test implement?  Decided by observing one undisturbed dump."""
    bootstrap()
    from .. import replay_dump
    sc = {"hist": [], "step": 1, "calls": 99, "inwrite": False, "iofail": []}
    import renormalizer.utils.tdmps as tdmps
    from renormalizer.utils.configs import EvolveConfig
    Job = replay_dump.make_job_class()
    d = tempfile.mkdtemp(prefix="verif-dump-")
    inj = replay_dump.FsInjector("job")
    inj.install(tdmps)
    try:
        job = Job(0, inj, {"die": None}, evolve_config=EvolveConfig(), dump_dir=d, job_name="job")
        job.evolve(evolve_dt=0.1, nsteps=2)
    finally:
        inj.uninstall()
        import shutil
        shutil.rmtree(d, ignore_errors=True)
    names = [e["ev"] for e in inj.trace]
    return ("replace" if "replace" in names else "rotate"), inj.trace


def _replay_chunk(args):
    bootstrap()
    from .. import replay_dump
    chunk, max_step = args
    out = []
    for i, sc in chunk:
        obs, traces = replay_dump.run_scenario(sc, sc["_max_step"])
        out.append((i, obs, traces))
    return out


def part_a(ctx):
    tier = ctx.tier
    proto, sample_trace = detect_protocol()
    ctx.notes["protocol_observed"] = proto
    if tier == "quick":
        K = dict(MaxStep=3, MaxRestart=1, MaxIoFail=1)
        K2 = dict(MaxStep=2, MaxRestart=2, MaxIoFail=0)
    else:
        K = dict(MaxStep=3, MaxRestart=2, MaxIoFail=1)
        K2 = dict(MaxStep=4, MaxRestart=2, MaxIoFail=0)
    scen = []
    for consts in (K, K2):
        c = dict(consts, Protocol=f'"{proto}"')
        cfg = tlc.make_cfg(constants=c, spec="Spec", invariants=["Recoverable", "Fresh", "NoStaleOverNew"])
        # the module holds both protocols; the actions of the other one are legitimately never taken
        other = ("Cleanup", "ExistsBak", "ExistsFile", "RemoveBak", "Rename") if proto == "replace" else ("Replace",)
        if consts["MaxIoFail"] == 0:
            other = other + ("WriteFail",)
        r = tlc.run("DumpProtocol", cfg, vacuity=True, allow_untaken=other, timeout=3000)
        ctx.add_tlc(r, f"DumpProtocol {c}")
        design_violated = r["violated"]
        if not design_violated:
            cov = r.get("coverage_summary") or {}
            for act in ("Crash", "WriteBegin", "WriteEnd"):
                if cov.get(act, {}).get("taken", 0) == 0:
                    raise MachineryError(f"vacuous: {act} never taken")
        cfg = tlc.make_cfg(constants=c, spec="Spec", invariants=["EmitState"])
        r = tlc.run("DumpProtocol", cfg, mode="emit", timeout=3000)
        ctx.add_tlc(r, f"DumpProtocol emit {c}")
        for e in r["emitted"]:
            e["_max_step"] = consts["MaxStep"]
        scen.extend(r["emitted"])
    # regression config: the pinned protocol must violate Recoverable (standing non-vacuity proof)
    cfg = tlc.make_cfg(constants=dict(MaxStep=2, MaxRestart=1, MaxIoFail=0, Protocol='"rotate"'), spec="Spec", invariants=["Recoverable"])
    r = tlc.run("DumpProtocol", cfg, timeout=600, expect_violation=True)
    ctx.add_tlc(r, "DumpProtocol pinned rotate protocol (must fail)")
    if r["violated"] != "Recoverable":
        raise MachineryError("regression config: pinned rotate protocol no longer violates Recoverable -> invariant vacuous?")
    ctx.notes["pinned_protocol_regression"] = "Recoverable violated as expected"

    # ---- spec -> code
    items = list(enumerate(scen))
    n = 64
    res = pmap(_replay_chunk, [(items[i::n], 0) for i in range(n) if items[i::n]], chunksize=1)
    # max_step travels inside each scenario
    flat = []
    for st, r in res:
        if st != "ok":
            raise MachineryError("dump replay worker failed: " + r)
        flat.extend(r)
    flat.sort(key=lambda x: x[0])
    traces = []
    n_unrec = 0
    drift = []
    for i, obs, trs in flat:
        sc = scen[i]
        key_hist = json.dumps([sc["hist"], sc["step"], sc["calls"], sc["inwrite"], sc["iofail"]])
        ctx.case(fingerprint=key_hist, nontrivial=(len(sc["hist"]) > 0 or sc["inwrite"] or sc["step"] > 1))
        if "error" in obs:
            drift.append({"kind": "diverges", "scenario": sc, "what": obs["error"]})
            continue
        exp = {k: (sc[k]["kind"], sc[k]["step"], sc[k]["inc"]) for k in ("file", "bak", "tmp")}
        okdir = True
        for k in ("file", "bak", "tmp"):
            e, o = exp[k], obs[k]
            if e[0] != o[0] or (e[0] == "complete" and (e[1], e[2]) != (o[1], o[2])):
                okdir = False
        cls = ("restart" if sc["hist"] else "first-run") + ("+inwrite" if sc["inwrite"] else "") + ("+ioerror" if (sc["iofail"] or any(h["iofail"] for h in sc["hist"])) else "")
        if not okdir:
            drift.append({"kind": "state-mismatch", "class": cls, "scenario": sc, "expected": exp, "observed": obs})
        complete = [o for o in obs.values() if o[0] == "complete"]
        if okdir and sc["dumped"] and not complete:
            n_unrec += 1
            ctx.violation(f"C14:dump:unrecoverable:{cls}",
                          "after a dump had completed (per specification history), a death at this point leaves NO complete loadable result file: " + json.dumps(obs),
                          {"scenario": sc, "observed": obs})
        # full multi-incarnation trace for TLC
        tr = [ev for t in trs for ev in t]
        traces.append(tr)
    ctx.notes["scenarios_replayed"] = len(flat)
    ctx.notes["scenarios_without_complete_file"] = n_unrec
    ctx.sample({"scenario_from_TLC": {k: v for k, v in scen[len(scen) // 2].items() if not k.startswith("_")}})

    # ---- code -> spec
    uniq = {}
    for tr in traces:
        uniq.setdefault(json.dumps(tr), tr)
    tl = list(uniq.values())
    with tempfile.NamedTemporaryFile("w", suffix=".json", delete=False) as fh:
        json.dump(tl, fh)
        path = fh.name
    try:
        c = dict(MaxStep=5, MaxRestart=4, MaxIoFail=3, Protocol=f'"{proto}"')
        cfg = tlc.make_cfg(constants=c, spec="TSpec", invariants=["Progress"])
        r = tlc.run("DumpProtocolTrace", cfg, mode="trace", env={"TRACE_FILE": path}, timeout=3000)
    finally:
        os.unlink(path)
    ctx.add_tlc(r, "DumpProtocolTrace batch")
    best = {}
    for v in r["verdicts"]:
        best[v["tid"]] = max(best.get(v["tid"], 0), v["l"])
    for t, tr in enumerate(tl, start=1):
        ctx.traces(1)
        if best.get(t, 0) != len(tr) + 1:
            drift.append({"kind": "trace-rejected", "matched_prefix": best.get(t, 0) - 1, "trace": tr})
    ctx.sample({"recorded_trace_validated_by_TLC": tl[len(tl) // 2]})
    # Two-stage rule: a divergence between the real call sequence and the specification is not by itself a violation
    # of the property (another safe protocol is possible).  It is reported as SPEC-DRIFT; the property itself is then
    # decided by the code-driven enumeration below, which does not depend on the specification's call sequence.
    ctx.notes["spec_drift"] = len(drift)
    if drift:
        ctx.notes["spec_drift_examples"] = drift[:3]
        print(f"SPEC-DRIFT property=C14 {len(drift)} replayed scenarios/traces are not behaviours of DumpProtocol({proto}); "
              f"first: {json.dumps(drift[0], default=str)[:400]}")
    direct_enumeration(ctx)


def _direct_chunk(args):
    bootstrap()
    from .. import replay_dump
    prefixes, max_step, depth = args
    out = []

    def completed_dumps(tr):
        done, cur, failed = 0, None, False
        for ev in tr:
            if ev["ev"] == "dump":
                if cur is not None and not failed:
                    done += 1
                cur, failed = ev["step"], False
            elif ev["ev"] == "write_fail":
                failed = True
            elif ev["ev"] == "crash":
                cur = None
        if cur is not None and not failed:
            done += 1
        return done

    def rec(hist, depth_left):
        for step in range(1, max_step + 1):
            for inwrite in (False, True):
                for k in range(0, 12):
                    for iof in ([], [step - 1] if (step > 1 and not hist) else []) if not inwrite else ([],):
                        sc = {"hist": hist, "step": step, "calls": k, "inwrite": inwrite, "iofail": iof}
                        obs, trs = replay_dump.run_scenario(sc, max_step)
                        if "error" in obs:
                            continue      # this incarnation has fewer FS calls / no write at that index
                        tr = [ev for t in trs for ev in t]
                        done = completed_dumps(tr)
                        complete = [o for o in obs.values() if o[0] == "complete"]
                        fresh_ok = True
                        if not hist and not iof and step >= 2:
                            fresh_ok = any(o[0] == "complete" and o[2] == 0 and o[1] in (step, step - 1) for o in obs.values())
                        out.append({"sc": sc, "obs": obs, "done": done, "recoverable": bool(complete) or done == 0, "fresh": fresh_ok})
                        if depth_left > 0:
                            rec(hist + [{"step": step, "calls": k, "inwrite": inwrite, "iofail": iof}], depth_left - 1)
    for p in prefixes:
        # p is a first-incarnation death point; expand below it
        sc = {"hist": [], "step": p[0], "calls": p[1], "inwrite": p[2], "iofail": p[3]}
        obs, trs = replay_dump.run_scenario(sc, max_step)
        if "error" in obs:
            continue
        tr = [ev for t in trs for ev in t]
        done = completed_dumps(tr)
        complete = [o for o in obs.values() if o[0] == "complete"]
        fresh_ok = True
        if not p[3] and p[0] >= 2:
            fresh_ok = any(o[0] == "complete" and o[2] == 0 and o[1] in (p[0], p[0] - 1) for o in obs.values())
        out.append({"sc": sc, "obs": obs, "done": done, "recoverable": bool(complete) or done == 0, "fresh": fresh_ok})
        if depth > 0:
            rec([{"step": p[0], "calls": p[1], "inwrite": p[2], "iofail": p[3]}], depth - 1)
    return out


def direct_enumeration(ctx):
    """Code-driven fault enumeration: die before every FS call index and inside every write of every dump, for
    every step, restart into the left-over directory (depth 1 quick / 2 thorough), optional swallowed IOError."""
    max_step = 3
    depth = 1 if ctx.tier == "quick" else 2
    prefixes = [(s, k, w, iof) for s in range(1, max_step + 1) for w in (False, True) for k in range(12)
                for iof in ([], [s - 1] if s > 1 else [])]
    prefixes = [p for p in prefixes if not (p[2] and p[1] > 8)]
    res = pmap(_direct_chunk, [([p], max_step, depth) for p in prefixes], chunksize=1)
    n = 0
    for st, r in res:
        if st != "ok":
            raise MachineryError("direct enumeration worker failed: " + r)
        for e in r:
            n += 1
            sc = e["sc"]
            ctx.case(fingerprint="direct" + json.dumps([sc["hist"], sc["step"], sc["calls"], sc["inwrite"], sc["iofail"]]),
                     nontrivial=(len(sc["hist"]) > 0 or sc["inwrite"] or sc["step"] > 1))
            cls = ("restart" if sc["hist"] else "first-run") + ("+inwrite" if sc["inwrite"] else "") + \
                  ("+ioerror" if (sc["iofail"] or any(h["iofail"] for h in sc["hist"])) else "")
            if not e["recoverable"]:
                ctx.violation(f"C14:dump:unrecoverable:{cls}",
                              f"after {e['done']} completed dump(s), a death at this point leaves NO complete loadable result file: " + json.dumps(e["obs"]),
                              {"scenario": sc, "observed": e["obs"]})
            elif not e["fresh"]:
                ctx.violation(f"C14:dump:stale:{cls}",
                              f"death during step {sc['step']} leaves no complete result file of the current or the previous step: " + json.dumps(e["obs"]),
                              {"scenario": sc, "observed": e["obs"]})
    ctx.notes["direct_crash_scenarios"] = n
    if n < 20:
        raise MachineryError("direct crash enumeration reached fewer than 20 scenarios")


# ------------------------------------------------------------------------------------------------ Part B

def _roundtrip(args):
    bootstrap()
    import numpy as np
    from .. import roundtrip
    return roundtrip.run_cases(*args)


def part_b(ctx):
    from .. import roundtrip  # noqa (import check)
    n = 16 if ctx.tier == "quick" else 48
    res = pmap(_roundtrip, [(ctx.seed, k, ctx.tier) for k in range(n)], chunksize=1)
    for st, r in res:
        if st != "ok":
            raise MachineryError("roundtrip worker failed: " + r)
        for c in r["cases"]:
            ctx.case(fingerprint=c, nontrivial=True)
        for key, what, detail in r["viol"]:
            ctx.violation(key, what, detail)
        if r.get("sample"):
            ctx.sample(r["sample"], limit=8)


def run(ctx):
    part_a(ctx)
    part_b(ctx)
    ctx.cov["rule"] = ("Part A: every reachable crash state of DumpProtocol (death between any two FS calls / inside the write, every step, "
                       "restarts into the left-over directory, one swallowed IOError) replayed on a real directory; non-trivial = involves a "
                       "restart, a partial write or a step >= 2; distinct = distinct crash history.  Part B: dump/load round trips of random "
                       "Mps/MpDm/TTNS in every gauge (real/complex, complex prefactor, 1-2 quantum numbers); distinct = (kind, gauge, dtype) tuple + seed")
    ctx.assumptions += ["process death is modelled as an exception unwinding from a file-system call (covers SIGTERM/KeyboardInterrupt/"
                        "finally-blocks); power loss without fsync is out of scope",
                        "os.replace / os.rename are atomic with respect to process death (POSIX)"]
