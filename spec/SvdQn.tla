------------------------------- MODULE SvdQn -------------------------------
(* Block structure of the symmetry-blocked decompositions  svd_qn / eigh_qn  (renormalizer/mps/svd_qn.py).

   Input: a label per row (qnbigl) and per column (qnbigr) of the coefficient matrix and the conserved total Q.
   The loop of svd_qn:   for nl in set(left labels):  nr = Q - nl ; rset = columns labelled nr ; skip if empty ;
                          lset = rows labelled nl ; decompose the block (lset x rset) ; scatter back.
   One action = one loop iteration (PickSector), in ANY order (Python set iteration order is arbitrary).
   The spec carries what the code must produce for every label pattern:
      - which (nl, nr) sectors are decomposed (each allowed pair exactly once, pairs without partner never),
      - how many columns each contributes: min(|lset|,|rset|) in economic mode, |lset| (U) / |rset| (V) in full mode,
      - their labels.
   Labels are tuples of Comp components with values 0..MaxLab.                                             *)
EXTENDS Integers, Sequences, FiniteSets, TLC, Json
CONSTANTS Comp, MaxLab, MaxLen, MaxQ

Lab == IF Comp = 1 THEN {<<a>> : a \in 0..MaxLab} ELSE {<<a, b>> : a \in 0..MaxLab, b \in 0..MaxLab}
Tot == IF Comp = 1 THEN {<<a>> : a \in 0..MaxQ} ELSE {<<a, b>> : a \in 0..MaxQ, b \in 0..MaxQ}
Minus(q, n) == [i \in 1..Comp |-> q[i] - n[i]]

VARIABLES ql, qr, Q, todo, done
vars == <<ql, qr, Q, todo, done>>

SetOfSeq(s) == {s[i] : i \in 1..Len(s)}
Idx(s, n) == {i \in 1..Len(s) : s[i] = n}

Init == /\ ql \in UNION {[1..k -> Lab] : k \in 1..MaxLen}
        /\ qr \in UNION {[1..k -> Lab] : k \in 1..MaxLen}
        /\ Q \in Tot
        /\ todo = SetOfSeq(ql) /\ done = {}

\* for nl in set(...):  one iteration
PickSector(nl) == /\ nl \in todo
                  /\ todo' = todo \ {nl}
                  /\ done' = IF Idx(qr, Minus(Q, nl)) = {} THEN done        \* continue
                             ELSE done \cup {[nl |-> nl, nr |-> Minus(Q, nl), nlset |-> Cardinality(Idx(ql, nl)),
                                              nrset |-> Cardinality(Idx(qr, Minus(Q, nl)))]}
                  /\ UNCHANGED <<ql, qr, Q>>
Next == \E nl \in Lab : PickSector(nl)
Spec == Init /\ [][Next]_vars /\ WF_vars(Next)

Finished == todo = {}
\* each allowed pair of sectors is decomposed exactly once; nothing without a partner is decomposed
Allowed == {nl \in SetOfSeq(ql) : Idx(qr, Minus(Q, nl)) # {}}
ExactlyOnce == Finished => /\ {d.nl : d \in done} = Allowed
                           /\ \A d1, d2 \in done : d1.nl = d2.nl => d1 = d2
                           /\ \A d \in done : d.nr \in SetOfSeq(qr) /\ d.nlset >= 1 /\ d.nrset >= 1
\* the result does not depend on the order in which the sectors are visited (confluence): a function of the input only
Expected == {[nl |-> nl, nr |-> Minus(Q, nl), nlset |-> Cardinality(Idx(ql, nl)), nrset |-> Cardinality(Idx(qr, Minus(Q, nl)))] : nl \in Allowed}
OrderIndependent == Finished => done = Expected
Terminates == <>Finished

\* ------------------------------------------------------------------ emission of label patterns with the expected sectors
SeqOfSet(S) == CHOOSE s \in [1..Cardinality(S) -> S] : \A i, j \in 1..Cardinality(S) : i # j => s[i] # s[j]
EmitPattern == (todo = SetOfSeq(ql)) =>
    PrintT(<<"EMIT", ToJson([ql |-> ql, qr |-> qr, Q |-> Q, sectors |-> SeqOfSet(Expected)])>>)
NoExpand == Len(ql) = 0
=============================================================================
