"""C10 — imaginary-time and thermal propagation yield the Gibbs state.

 * the EvolveSpace configurations with imaginary time are executed by the same dense-oracle engine as C09 (every scheme,
   both local integrators, adaptive, state and density-operator form, input gauges, split histories): the result must
   be exp(-tau H) psi / norm.
 * closed-form propagator Mpo.exact_propagator (GS / EX space, schemes 1-4, several modes incl. degenerate frequencies
   with different displacements, real / imaginary / complex x, non-zero shift) against the dense exponential;
   Mps.evolve_exact / MpDm.evolve_exact incl. the offset phase, inputs untouched.
 * ThermalProp from the maximally entangled state (P&C, one-site projector splitting, matrix-unfolding VMF; 1..16 steps;
   beta over two decades; exact = True in both spaces): reduced operator rho = Psi Psi^+ / Tr against exp(-beta H)/Z
   restricted to the sector, energies and occupations against Gibbs averages.
 * TdJob.tla: argument case analysis and step loop of TdMpsJob.evolve; the real job's final time and step count are
   compared with the model for every argument combination.
"""
import json

import numpy as np
from scipy.linalg import expm

from .. import tlc
from ..common import pmap, MachineryError, bootstrap, rng_for
from . import c09

LEVEL = "model_checking"


def _holstein(rng, nmol, modes, scheme, degenerate=False):
    from renormalizer.model import HolsteinModel, Mol, Phonon
    from renormalizer.utils import Quantity
    mols = []
    w0 = float(rng.uniform(0.6, 1.4))
    for m in range(nmol):
        phs = []
        for i in range(modes):
            w = w0 if degenerate else float(rng.uniform(0.6, 1.4))
            d = float(rng.uniform(-0.8, 0.8))
            phs.append(Phonon.simple_phonon(Quantity(w), Quantity(d), 3))
        mols.append(Mol(Quantity(float(rng.uniform(-0.3, 0.3))), phs))
    return HolsteinModel(mols, Quantity(float(rng.uniform(0.1, 0.5))), scheme=scheme), mols


def _local_generator(model, mols, space):
    """dense sum_i (omega b+b [+ term10 (b+ + b)]) in the site order of the model."""
    dims = [b.nbas for b in model.basis]
    H = np.zeros((int(np.prod(dims)),) * 2)
    for k, b in enumerate(model.basis):
        if not b.is_phonon:
            continue
        imol, iph = b.dof
        ph = mols[imol].ph_list[iph]
        bm = np.diag(np.sqrt(np.arange(1, b.nbas)), k=1)
        h = ph.omega[0] * bm.T @ bm
        if space == "EX":
            h = h + ph.term10 * (bm + bm.T)
        mats = [np.eye(d) for d in dims]
        mats[k] = h
        o = np.array([[1.0]])
        for m_ in mats:
            o = np.kron(o, m_)
        H += o
    return H


def _exact_cases(args):
    bootstrap()
    from renormalizer.mps import Mpo, Mps, MpDm
    from renormalizer.utils import Quantity
    from .. import states as st, concretize as cz
    seed, k = args
    out = {"cases": [], "viol": []}
    rng = rng_for(seed, "c10exact", k)
    for scheme in (1, 4):
        for modes, degenerate in ((1, False), (2, False), (2, True)):
            nmol = 1 + k % 2
            model, mols = _holstein(rng, nmol, modes, scheme, degenerate)
            for space in ("GS", "EX"):
                G = _local_generator(model, mols, space)
                for x in (-0.7, -0.45j, 0.3 - 0.2j):
                    for shift in (0.0, 0.37):
                        detail = {"scheme": scheme, "nmol": nmol, "modes": modes, "degenerate": degenerate, "space": space, "x": str(x), "shift": shift, "k": k}
                        out["cases"].append(json.dumps(detail))
                        try:
                            got = cz.mpo_dense(Mpo.exact_propagator(model, x, space=space, shift=shift))
                        except Exception as e:
                            out["viol"].append((f"C10:exact_propagator:raises:{space}", f"{type(e).__name__}: {e}", detail))
                            continue
                        ref = expm(x * (G + shift * np.eye(len(G))))
                        if np.linalg.norm(got - ref) > 1e-9 * (np.linalg.norm(ref) + 1):
                            cls = "degenerate-modes" if degenerate else "general"
                            out["viol"].append((f"C10:exact_propagator:{space}:{cls}", f"closed-form propagator differs from the dense exponential by {np.linalg.norm(got - ref):.2e}", detail))
                # evolve_exact of states and density operators, with offset
                for off in (0.0, 0.41):
                    for kind in ("mps", "mpdm"):
                        detail = {"scheme": scheme, "nmol": nmol, "modes": modes, "space": space, "offset": off, "kind": kind, "k": k}
                        out["cases"].append(json.dumps(detail))
                        try:
                            qn = 1 if space == "EX" else 0
                            m = st.random_mps(model, qn, 4, (seed, "c10ee", k, scheme, modes, space), cplx=False).scale(0.9)
                            m.coeff = 0.8
                            obj = MpDm.from_mps(m) if kind == "mpdm" else m
                            before = st.dense(obj)
                            h = Mpo(model, offset=Quantity(off))
                            dt = 0.37
                            new = obj.evolve_exact(h, dt, space)
                            after_in = st.dense(obj)
                            if np.linalg.norm(after_in - before) > 1e-12 * (np.linalg.norm(before) + 1):
                                cls = "offset-phase-written-to-input" if off else "general"
                                out["viol"].append((f"C13:evolve_exact-disturbs-input:{kind}:{cls}", f"evolve_exact changed its input by {np.linalg.norm(after_in - before):.2e}", detail))
                            U = expm(-1j * dt * _local_generator(model, mols, space))
                            ref = U @ before if kind == "mps" else (before @ U)     # MpDm.evolve_exact applies the propagator from the right (documented in the code)
                            got = st.dense(new)
                            if np.linalg.norm(got - ref) > 1e-9 * (np.linalg.norm(ref) + 1):
                                # maybe only the phase exp(-i offset dt) is missing
                                ph = np.exp(-1j * off * dt)
                                cls = "offset-phase-missing" if (off and np.linalg.norm(got * ph - ref) < 1e-9 * (np.linalg.norm(ref) + 1)) else "general"
                                out["viol"].append((f"C10:evolve_exact:{kind}:{cls}", f"evolve_exact differs from exp(-i dt H_local) psi by {np.linalg.norm(got - ref):.2e} (offset {off})", detail))
                        except Exception as e:
                            out["viol"].append((f"C10:evolve_exact:raises:{kind}", f"{type(e).__name__}: {e}", detail))
    return out


def _thermal_cases(args):
    bootstrap()
    from renormalizer.mps import Mpo, MpDm, ThermalProp
    from renormalizer.utils import Quantity, EvolveConfig, EvolveMethod, CompressConfig, CompressCriteria
    from .. import states as st, concretize as cz
    seed, k, tier = args
    out = {"cases": [], "viol": [], "meas": []}
    rng = rng_for(seed, "c10thermal", k)
    scheme = [2, 4][k % 2]
    model, mols = _holstein(rng, 2, 1, scheme)
    H = np.asarray(Mpo(model).todense())
    dims = [b.nbas for b in model.basis]
    mask1 = st.sector_projector(model.basis, 1)
    for beta in ((0.05, 0.5, 5.0) if tier == "quick" else (0.05, 0.2, 0.5, 2.0, 5.0)):
        Hs = H[np.ix_(mask1, mask1)]
        w = np.linalg.eigvalsh(Hs)
        rho = expm(-beta * (Hs - w[0] * np.eye(len(Hs))))
        rho /= np.trace(rho)
        e_ref = float(np.trace(rho @ Hs))
        for method, nsteps in ((EvolveMethod.prop_and_compress, 16), (EvolveMethod.tdvp_ps, 4), (EvolveMethod.tdvp_mu_vmf, 2), (EvolveMethod.tdvp_ps, 1)):
            detail = {"scheme": scheme, "beta": beta, "method": method.name, "nsteps": nsteps, "k": k}
            out["cases"].append(json.dumps(detail))
            try:
                init = MpDm.max_entangled_ex(model)
                init.compress_config = CompressConfig(CompressCriteria.fixed, max_bonddim=36)
                cfg = EvolveConfig(method, ivp_rtol=1e-9, ivp_atol=1e-11)
                tp = ThermalProp(init, evolve_config=cfg)
                tp.evolve(nsteps=nsteps, evolve_time=beta / 2j)
                psi = cz.mps_dense(tp.latest_mps)                      # (up, down) matrix of the purification
                rr = psi @ psi.conj().T
                rr = rr / np.trace(rr)
                leak = abs(1 - np.trace(rr[np.ix_(mask1, mask1)]).real)
                err = np.linalg.norm(rr[np.ix_(mask1, mask1)] - rho)
                out["meas"].append({"method": method.name, "beta": beta, "nsteps": nsteps, "err": float(err)})
                tol = 2e-2 * (beta / nsteps) ** 2 * 50 + 1e-6 if method == EvolveMethod.prop_and_compress else 1e-5
                if leak > 1e-8:
                    out["viol"].append(("C10:thermal:sector-leak", f"thermal state has weight {leak:.2e} outside the one-exciton sector", detail))
                if err > tol:
                    out["viol"].append((f"C10:thermal:gibbs:{method.name}", f"reduced operator differs from exp(-beta H)/Z by {err:.2e} (allowed {tol:.1e})", detail))
                e_got = tp.energies[-1]
                if abs(e_got - e_ref) > max(tol, 1e-5) * (np.linalg.norm(Hs, 2) + 1):
                    out["viol"].append((f"C10:thermal:energy:{method.name}", f"thermal energy {e_got} differs from the Gibbs average {e_ref}", detail))
                occ = np.asarray(tp.e_occupations_array[-1])
                occ_ref = []
                for d in model.e_dofs:
                    from renormalizer.model import Op
                    nd = np.asarray(Mpo(model, Op(r"a^\dagger a", d)).todense())[np.ix_(mask1, mask1)]
                    occ_ref.append(float(np.trace(rho @ nd)))
                if np.abs(occ - np.array(occ_ref)).max() > max(tol, 1e-5):
                    out["viol"].append((f"C10:thermal:occupations:{method.name}", f"electronic occupations {occ} differ from the Gibbs averages {occ_ref}", detail))
                if len(tp.evolve_times) - 1 != nsteps or abs(tp.evolve_times[-1] - beta / 2j) > 1e-12:
                    out["viol"].append(("C10:thermal:step-accounting", f"{len(tp.evolve_times) - 1} steps to time {tp.evolve_times[-1]}, requested {nsteps} steps to {beta / 2j}", detail))
            except Exception as e:
                import traceback
                tb = traceback.format_exc(limit=3).splitlines()
                out["viol"].append((f"C10:thermal:raises:{method.name}:{type(e).__name__}", f"{type(e).__name__}: {e} | {tb[-3].strip() if len(tb) > 3 else ''}", detail))
        # exact thermal propagation in the displaced-oscillator picture needs a local Hamiltonian: J = 0
    return out


def _thermal_exact_cases(args):
    """ThermalProp(exact=True): closed-form propagation with the local Hamiltonian, over schedules of SEVERAL evolve()
    calls with different step sizes (the result must depend on the total imaginary time only)."""
    bootstrap()
    from renormalizer.mps import MpDm, ThermalProp
    from .. import concretize as cz
    seed, k = args
    out = {"cases": [], "viol": [], "meas": []}
    rng = rng_for(seed, "c10thermal-exact", k)
    model, mols = _holstein(rng, 2, 1 + k % 2, [2, 4][k % 2])
    for space in ("GS", "EX"):
        Hl = _local_generator(model, mols, space)
        for sched in ([(2, 0.6)], [(1, 0.2), (2, 0.5)], [(3, 0.3), (1, 0.4)], [(1, 0.5), (1, 0.1), (1, 0.3)]):
            detail = {"space": space, "schedule": sched, "holstein_scheme": model.scheme, "k": k}
            out["cases"].append(json.dumps(detail))
            try:
                init = MpDm.max_entangled_gs(model) if space == "GS" else MpDm.max_entangled_ex(model)
                rho0 = cz.mps_dense(init)
                tp = ThermalProp(init, exact=True, space=space)
                total = 0.0
                for nsteps, tau in sched:
                    tp.evolve(nsteps=nsteps, evolve_time=tau / 1j)
                    total += tau
                    got = cz.mps_dense(tp.latest_mps)
                    ref = expm(-total * Hl) @ rho0
                    d = np.linalg.norm(got / np.linalg.norm(got) - ref / np.linalg.norm(ref))
                    out["meas"].append({"method": "exact", "space": space, "err": float(d)})
                    if d > 1e-9:
                        out["viol"].append((f"C10:thermal-exact:{space}:{'one-call' if len(sched) == 1 else 'mixed-steps'}", f"after total imaginary time {total} the state differs from exp(-tau H_local) rho0 by {d:.2e}", detail))
                        break
            except Exception as e:
                out["viol"].append((f"C10:thermal-exact:raises:{space}:{type(e).__name__}", f"{type(e).__name__}: {e}", detail))
    return out


def _tdjob_cases(cases):
    bootstrap()
    from renormalizer.utils.tdmps import TdMpsJob
    from renormalizer.utils import EvolveConfig

    class Job(TdMpsJob):
        def init_mps(self):
            return object()

        def process_mps(self, mps):
            self.nproc = getattr(self, "nproc", 0) + 1

        def evolve_single_step(self, dt):
            return object()

        free = False

        def stop_evolve_criteria(self):
            return self.free and len(self.evolve_times) - 1 >= 2

        def get_dump_dict(self):
            return {}
    viol = []
    q = 0.125
    for c in cases:
        kw = {}
        if c["dt"]:
            kw["evolve_dt"] = c["dt"] * q
        if c["n"]:
            kw["nsteps"] = c["n"]
        if c["T"]:
            kw["evolve_time"] = c["T"] * q
        try:
            j = Job(EvolveConfig())
            j.free = not c["n"] and not c["T"]
            j.evolve(**kw)
        except Exception as e:
            viol.append(("C10:tdjob:raises", f"TdMpsJob.evolve({kw}) raised {type(e).__name__}: {e}", c))
            continue
        steps = len(j.evolve_times) - 1
        final = j.evolve_times[-1] / q
        if steps != c["steps"] or abs(final - c["final"]) > 1e-9:
            viol.append(("C10:tdjob:steps", f"TdMpsJob.evolve({kw}) took {steps} steps to time {final} quanta; the model (mirror of the code) says {c['steps']} steps to {c['final']}", c))
        if j.nproc != steps + 1:
            viol.append(("C10:tdjob:process-per-step", f"{j.nproc} process_mps calls for {steps} steps", c))
        if c["dt"] and c["T"] and not c["n"] and c["T"] % c["dt"] == 0 and abs(final - c["T"]) > 1e-9:
            viol.append(("C10:tdjob:overshoot-when-dt-divides-time", f"evolve(evolve_dt={c['dt']}q, evolve_time={c['T']}q) ends at {final}q: one step beyond the requested total time", c))
    return viol


def run(ctx):
    tier = ctx.tier
    c09.run(ctx, imag=True)
    # ---- TdJob
    cfg = tlc.make_cfg(constants=dict(MaxQ=3, MaxN=3, MaxFree=2, Floor=False), spec="Spec", invariants=["OnePerStep", "Emit"], properties=["Terminates"])
    r = tlc.run("TdJob", cfg, mode="emit", timeout=600)
    ctx.add_tlc(r, "TdJob argument cases (mirror of the code)")
    cfg = tlc.make_cfg(constants=dict(MaxQ=3, MaxN=3, MaxFree=2, Floor=True), spec="Spec", invariants=["OnePerStep", "FinalTime"], properties=["Terminates"])
    r2 = tlc.run("TdJob", cfg, vacuity=True, timeout=600)
    ctx.add_tlc(r2, "TdJob documented meaning (FinalTime)")
    if r2["violated"]:
        ctx.violation(f"C10:spec:TdJob:{r2['violated']}", "TdJob violates " + r2["violated"], {"tlc": r2.get("error_text", "")[:1500]})
    st_, v = pmap(_tdjob_cases, [r["emitted"]], chunksize=1)[0]
    if st_ != "ok":
        raise MachineryError("tdjob worker failed: " + v)
    for c in r["emitted"]:
        ctx.case(fingerprint="tdjob" + json.dumps(c), nontrivial=True)
        ctx.traces(1)
    for key, what, detail in v:
        ctx.violation(key, what, detail)
    res = pmap(_exact_cases, [(ctx.seed, k) for k in range(4 if tier == "quick" else 16)], chunksize=1)
    res += pmap(_thermal_cases, [(ctx.seed, k, tier) for k in range(4 if tier == "quick" else 12)], chunksize=1)
    res += pmap(_thermal_exact_cases, [(ctx.seed, k) for k in range(2 if tier == "quick" else 8)], chunksize=1)
    meas = []
    for st_, o in res:
        if st_ != "ok":
            raise MachineryError("C10 worker failed: " + o)
        for c in o["cases"]:
            ctx.case(fingerprint=c, nontrivial=True)
        for key, what, detail in o["viol"]:
            if key.startswith("C10"):
                ctx.violation(key, what, detail)
        meas += o.get("meas", [])
    ctx.notes["thermal_errors"] = meas[:40]
    ctx.sample({"thermal_case": {"holstein_scheme": 4, "beta": 0.5, "method": "tdvp_ps", "nsteps": 4}})
    ctx.cov["rule"] += " ; plus closed-form propagator / evolve_exact cases, ThermalProp runs (3 schemes x step counts x beta over two decades x Holstein schemes 2 and 4) and every TdMpsJob.evolve argument combination from TdJob.tla"
