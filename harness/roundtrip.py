"""C14 part B: dump -> load identity for chain states, density operators and tree states."""
import os
import tempfile

import numpy as np

from . import states as st
from .common import rng_for, reseed_global


def _cmp_chain(a, b, what, viol, detail, kind):
    aa, bb = st.arrays(a), st.arrays(b)
    ok = len(aa) == len(bb) and all(x.shape == y.shape and x.dtype == y.dtype and np.array_equal(x, y) for x, y in zip(aa, bb))
    if not ok:
        viol.append((f"C14:roundtrip:{kind}:tensors", f"{what}: site tensors differ after load", detail))
    if not (np.asarray(a.coeff) == np.asarray(b.coeff)) or (np.iscomplexobj(a.coeff) != np.iscomplexobj(b.coeff) and complex(a.coeff).imag != 0):
        viol.append((f"C14:roundtrip:{kind}:coeff", f"{what}: prefactor {a.coeff!r} reloaded as {b.coeff!r}", detail))
    if a.qnidx != b.qnidx or bool(a.to_right) != bool(b.to_right) or not np.array_equal(np.asarray(a.qntot).reshape(-1), np.asarray(b.qntot).reshape(-1)):
        viol.append((f"C14:roundtrip:{kind}:centre", f"{what}: qnidx/to_right/qntot ({a.qnidx},{a.to_right},{a.qntot}) reloaded as ({b.qnidx},{b.to_right},{b.qntot})", detail))
    if len(a.qn) != len(b.qn) or not all(np.array_equal(np.asarray(x), np.asarray(y)) for x, y in zip(a.qn, b.qn)):
        viol.append((f"C14:roundtrip:{kind}:qn", f"{what}: bond quantum numbers differ after load", detail))


def run_cases(seed, k, tier):
    from renormalizer.mps import Mps, MpDm, Mpo
    from renormalizer.model import Op
    out = {"cases": [], "viol": [], "sample": None}
    rng = rng_for(seed, "roundtrip", k)
    fams = ["elec", "eph", "qn2", "spin"]
    fam = fams[k % len(fams)]
    N = 3 + (k // 4) % 3
    model, basis, alphas = st.chain_model(fam, N, variant=k % 4)
    qn_size = model.qn_size
    ne = st.n_electron_sites(basis)
    if fam == "spin":
        qntot = 0
    elif qn_size == 1:
        qntot = 1 + (k % max(1, min(2, ne - 1))) if ne > 1 else min(1, ne)
    else:
        qntot = np.array([1, 1 if ne >= 3 else 0])
    gauges = list(st.GAUGES) + [("moved", int(rng.integers(0, N)))]
    d = tempfile.mkdtemp(prefix="verif-rt-")
    try:
        for gi, gauge in enumerate(gauges):
            for cplx in (False, True):
                for kind in ("mps", "mpdm"):
                    coeff = [None, 0.7, -1.3 + 0.4j, 2.0j][(gi + cplx + (kind == "mpdm") + k) % 4]
                    detail = {"family": fam, "N": N, "qntot": np.asarray(qntot).tolist(), "gauge": gauge, "complex": cplx,
                              "kind": kind, "coeff": repr(coeff), "seed": seed, "k": k}
                    try:
                        if kind == "mps":
                            obj = st.random_mps(model, qntot, 4, (seed, "rt", k, gi, cplx), cplx=cplx, coeff=coeff)
                        else:
                            # MpDm.from_mps is fed a real state (its behaviour on complex input is C03's business)
                            obj = MpDm.from_mps(st.random_mps(model, qntot, 4, (seed, "rt", k, gi, cplx), cplx=False, coeff=coeff))
                            if cplx:
                                obj = st.complexify(obj, rng)
                        if np.linalg.norm(st.dense(obj)) < 1e-12:
                            continue
                        st.to_gauge(obj, gauge)
                        ref_dense = st.dense(obj)
                        fname = os.path.join(d, f"s{gi}{int(cplx)}{kind}.npz")
                        obj.dump(fname)
                        cls = MpDm if kind == "mpdm" else Mps
                        back = cls.load(model, fname)
                    except Exception as e:
                        out["viol"].append((f"C14:roundtrip:{kind}:raises", f"dump/load raised {type(e).__name__}: {e}", detail))
                        continue
                    out["cases"].append(f"{fam}/{N}/{gauge}/{cplx}/{kind}/{coeff}")
                    _cmp_chain(obj, back, f"{kind} {gauge}", out["viol"], detail, kind)
                    e = np.linalg.norm(st.dense(back) - ref_dense)
                    if e > 1e-12 * (np.linalg.norm(ref_dense) + 1):
                        out["viol"].append((f"C14:roundtrip:{kind}:value", f"coeff*dense differs after load by {e:.2e}", detail))
                    # every later operation gives identical results
                    try:
                        o2, b2 = obj.copy(), back
                        for mp in (o2, b2):
                            mp.ensure_left_canonical()
                            mp.canonicalise()
                        if np.linalg.norm(st.dense(o2) - st.dense(b2)) > 1e-10 * (np.linalg.norm(ref_dense) + 1) \
                           or np.linalg.norm(st.dense(b2) - ref_dense) > 1e-10 * (np.linalg.norm(ref_dense) + 1):
                            out["viol"].append((f"C14:roundtrip:{kind}:later-ops", "canonicalise after load differs from canonicalise of the original", detail))
                    except Exception as e:
                        out["viol"].append((f"C14:roundtrip:{kind}:later-ops-raise", f"operation on the reloaded object raised {type(e).__name__}: {e}", detail))
                    # ---- files in the older layouts the loader still supports (0.1: flag named `left`, no prefactor stored;
                    # 0.2: prefactor stored as the last entry of `tdh_wfns`; 0.3: as 0.4), synthesised from the fresh dump
                    for ver in ("0.1", "0.2", "0.3"):
                        try:
                            raw = dict(np.load(fname, allow_pickle=True))
                            raw["version"] = ver
                            if ver in ("0.1", "0.2"):
                                raw.pop("coeff", None)
                            if ver == "0.1":
                                raw["left"] = raw.pop("to_right")
                            if ver == "0.2":
                                tdh = np.empty(2, dtype=object)
                                tdh[0], tdh[1] = np.ones(2), obj.coeff
                                raw["tdh_wfns"] = tdh
                            lname = os.path.join(d, f"legacy{ver}.npz")
                            np.savez(lname, **raw)
                            old = cls.load(model, lname)
                            expect = obj.copy()
                            if ver == "0.1":
                                expect.coeff = 1
                            _cmp_chain(expect, old, f"{kind} {gauge} layout {ver}", out["viol"], dict(detail, layout=ver), kind + "-layout" + ver)
                            out["cases"].append(f"{fam}/{N}/{gauge}/{cplx}/{kind}/{coeff}/layout{ver}")
                        except Exception as e:
                            out["viol"].append((f"C14:roundtrip:{kind}-layout{ver}:raises", f"loading a layout-{ver} file raised {type(e).__name__}: {e}", dict(detail, layout=ver)))
                    if out["sample"] is None:
                        out["sample"] = {"roundtrip_case": detail}
        # ---- tree states
        try:
            from renormalizer.tn import BasisTree, TTNS
            have_tn = True
        except Exception:
            have_tn = False
        if have_tn:
            from renormalizer.tn.node import TreeNodeBasis
            for shape_i in range(2):
                detail = {"family": fam, "N": N, "tree": ["binary", "linear"][shape_i], "seed": seed, "k": k}
                try:
                    tree = BasisTree.binary(list(basis)) if shape_i == 0 else BasisTree.linear(list(basis))
                    reseed_global(seed, "rt-tree", k, shape_i)
                    t = TTNS.random(tree, qntot, 4)
                    if k % 2:
                        t = t.to_complex()
                        t = t.scale(np.exp(0.3j) * 1.7)
                    if shape_i == 1:
                        t.canonicalise()
                    # a prefactor that is not 1 (scale() folds its argument into the root tensor, not into coeff)
                    t.coeff = [0.37, -1.3 + 0.4j, 2.0][(k + shape_i) % 3] if np.iscomplexobj(t.root.tensor) else [0.37, -1.9, 2.0][(k + shape_i) % 3]
                    order = [b for b in tree.basis_list if not b.__class__.__name__ == "BasisDummy"]
                    ref = t.todense(order)
                    fname = os.path.join(d, f"t{shape_i}.npz")
                    t.dump(fname)
                    back = TTNS.load(tree, fname)
                    out["cases"].append(f"tree/{fam}/{N}/{shape_i}/{k % 2}")
                    got = back.todense(order)
                    if not np.array_equal(np.asarray(ref), np.asarray(got)):
                        out["viol"].append(("C14:roundtrip:ttns:value", "TTNS todense differs after load", detail))
                    for n1, n2 in zip(t.node_list, back.node_list):
                        if not np.array_equal(np.asarray(n1.tensor), np.asarray(n2.tensor)) or not np.array_equal(np.asarray(n1.qn), np.asarray(n2.qn)):
                            out["viol"].append(("C14:roundtrip:ttns:tensors", "TTNS node tensors / qn differ after load", detail))
                            break
                    if not (np.asarray(t.coeff) == np.asarray(back.coeff)):
                        out["viol"].append(("C14:roundtrip:ttns:coeff", f"TTNS coeff {t.coeff} reloaded as {back.coeff}", detail))
                    # the same round trip with a user attribute carried along (other_attrs keyword of dump and load)
                    t.user_tag = np.array([3.5, -1.0])
                    fname2 = os.path.join(d, f"t{shape_i}_attrs.npz")
                    t.dump(fname2, other_attrs=["user_tag"])
                    back2 = TTNS.load(tree, fname2, other_attrs=["user_tag"])
                    out["cases"].append(f"tree/{fam}/{N}/{shape_i}/{k % 2}/other_attrs")
                    if not (np.asarray(t.coeff) == np.asarray(back2.coeff)) or not np.array_equal(np.asarray(back2.user_tag), t.user_tag):
                        out["viol"].append(("C14:roundtrip:ttns:coeff-with-other_attrs", f"TTNS dumped and loaded with other_attrs: coeff {t.coeff} reloaded as {back2.coeff}, attribute {getattr(back2, 'user_tag', None)}", detail))
                    if not np.array_equal(np.asarray(back2.todense(order)), np.asarray(ref)):
                        out["viol"].append(("C14:roundtrip:ttns:value-with-other_attrs", "TTNS todense differs after load with other_attrs", detail))
                    back.canonicalise()
                    if np.linalg.norm(np.asarray(back.todense(order)) - np.asarray(ref)) > 1e-10 * (np.linalg.norm(ref) + 1):
                        out["viol"].append(("C14:roundtrip:ttns:later-ops", "canonicalise after load changes the state", detail))
                except Exception as e:
                    out["viol"].append(("C14:roundtrip:ttns:raises", f"TTNS dump/load raised {type(e).__name__}: {e}", detail))
    finally:
        import shutil
        shutil.rmtree(d, ignore_errors=True)
    return out
