"""C03 — state and operator arithmetic agrees with dense linear algebra in any gauge (MpHeap, mode B)."""
from . import heap_common as hc
from ..common import MachineryError

LEVEL = "model_checking"
OWNED = ("C03",)


def plan(tier):
    if tier == "quick":
        return dict(d1=True, d2_sample=3000, sim=(5, 600), universes=[("elec", 3, "mps", 1), ("eph", 3, "mpdm", 1)], op_universes=["elec"])
    return dict(d1=True, d2_sample=None, sim=(6, 6000), universes=[("elec", 3, "mps", 1), ("eph", 3, "mps", 1), ("elec", 3, "mpdm", 1), ("eph", 3, "mpdm", 1)], op_universes=["elec", "eph"])


def run(ctx, owned=OWNED, actions=None, extra=None):
    p = plan(ctx.tier)
    N = 3
    c2 = hc.consts(N, 2, actions)
    hc.design_run(ctx, c2, "MpHeap N=3 depth 2 (all histories)")
    d1 = hc.emit_exhaustive(ctx, hc.consts(N, 1, actions), "depth 1")
    d2 = hc.emit_exhaustive(ctx, c2, "depth 2")
    sim = hc.emit_simulate(ctx, hc.consts(N, p["sim"][0], actions), p["sim"][1], f"depth {p['sim'][0]}")
    for ui, (fam, n, kind, s0) in enumerate(p["universes"]):
        uspec = (fam, n, kind, s0, ctx.seed, ui)
        cases = list(d1) + hc.sample(d2, p["d2_sample"], ctx.seed + ui) + list(sim)
        hc.replay(ctx, cases, uspec, owned)
    # ---- operator universe: handles are Mpo objects (generators of charge +1, their adjoints of charge -1)
    co = lambda d: hc.consts(N, d, hc.MPO_ACTIONS, sector0=1, maxq=2, minq=-2, freshform="none")
    hc.design_run(ctx, co(2), "MpHeap operator universe N=3 depth 2")
    o1 = hc.emit_exhaustive(ctx, co(1), "operators depth 1")
    o2 = hc.emit_exhaustive(ctx, co(2), "operators depth 2")
    osim = hc.emit_simulate(ctx, co(4), p["sim"][1] // 3, "operators depth 4")
    for ui, fam in enumerate(p["op_universes"]):
        uspec = (fam, N, "mpo", 1, ctx.seed, 10 + ui)
        hc.replay(ctx, list(o1) + hc.sample(o2, (p["d2_sample"] or 10 ** 9) // 2 if p["d2_sample"] else None, ctx.seed + 7 + ui) + list(osim), uspec, owned, id_offset=10 ** 6)
    # ---- the objects MpHeap histories start from: public constructors and expanders (value, gauge flags, labels, later arithmetic)
    from .. import constructors
    from ..common import pmap
    res = pmap(constructors.cases, [(ctx.seed, k) for k in range(12 if ctx.tier == "quick" else 48)], chunksize=1)
    for st_, o in res:
        if st_ != "ok":
            raise MachineryError("constructor worker failed: " + o)
        for c in o["cases"]:
            ctx.case(fingerprint="ctor" + c, nontrivial=True)
        for key, what, detail in o["viol"]:
            if key.split(":")[0] in owned:
                ctx.violation(key, what, detail)
    ctx.sample(hc.short(o2[len(o2) // 3]))
    ctx.sample(hc.short(d2[len(d2) // 2]))
    ctx.sample(hc.short(sim[0]))
    ctx.traces(0)
    ctx.cov["rule"] = ("behaviours = histories of public calls enumerated by TLC from MpHeap: ALL of depth 1 and 2 (quick: all of depth 1, a seeded "
                       "sample of depth 2) from a heap holding two generators in every constructor-reachable gauge pair, plus -simulate "
                       "behaviours of depth 5-6; each replayed on real Mps / MpDm objects of 2 model families with every live object compared "
                       "after every action; non-trivial = contains Add/Sub/Apply and was not pruned for a numerically zero value; "
                       "distinct = (universe, initial gauges, action sequence)")
    ctx.assumptions += ["operators H/Cr/An are Mpo objects whose dense value is certified by C01; dense interpretation uses hand-written local matrices",
                        "dot/expectation are compared as the library documents them (tensor part, prefactor excluded); norm/distance include the prefactor"]
