---------------------------- MODULE ModelBuilders ----------------------------
(* Index arithmetic of the model builders (renormalizer/model/model.py), the only discrete part of property C16.

   Holstein:  site order of HolsteinModel for scheme 1..4 given the number of vibrational modes of each molecule.
       scheme < 4 : [e_0, ph_(0,0), ph_(0,1), ..., e_1, ph_(1,0), ...]
       scheme = 4 : all phonons in molecule order, the single multi-electron site inserted after the phonons of
                    the first  M \div 2  molecules.
   TI1D:      unit cell i, interaction offsets o  ->  cell (i + o) mod ncell  (periodic wrap-around).

   TLC enumerates every parameter combination inside the bounds, checks that every degree of freedom occurs
   exactly once / every support index is in range, and emits the expected orders and supports; the harness
   compares them with the real builders and assembles the dense reference Hamiltonian in THAT order.       *)
EXTENDS Integers, Sequences, FiniteSets, TLC, Json
CONSTANTS MaxMol, MaxModes, MaxCell, MaxOff

VARIABLES kind, modes, scheme, ncell, offs
vars == <<kind, modes, scheme, ncell, offs>>

RECURSIVE PhOf(_, _, _), OrderLt4(_, _), AllPh(_, _), SumTo(_, _)
PhOf(m, i, k) == IF i > k THEN <<>> ELSE << <<"ph", m, i>> >> \o PhOf(m, i + 1, k)
OrderLt4(ms, m) == IF m > Len(ms) THEN <<>> ELSE << <<"e", m - 1>> >> \o PhOf(m - 1, 0, ms[m] - 1) \o OrderLt4(ms, m + 1)
AllPh(ms, m) == IF m > Len(ms) THEN <<>> ELSE PhOf(m - 1, 0, ms[m] - 1) \o AllPh(ms, m + 1)
SumTo(ms, m) == IF m = 0 THEN 0 ELSE ms[m] + SumTo(ms, m - 1)
Order4(ms) == LET ph == AllPh(ms, 1)
                  nleft == SumTo(ms, Len(ms) \div 2)
              IN SubSeq(ph, 1, nleft) \o << <<"E">> >> \o SubSeq(ph, nleft + 1, Len(ph))
HolsteinOrder == IF scheme < 4 THEN OrderLt4(modes, 1) ELSE Order4(modes)

Init == \/ /\ kind = "holstein"
           /\ modes \in UNION {[1..m -> 1..MaxModes] : m \in 1..MaxMol}   \* Mol() requires at least one mode
           /\ scheme \in 1..4 /\ ncell = 0 /\ offs = <<>>
        \/ /\ kind = "ti"
           /\ ncell \in 1..MaxCell
           /\ offs \in UNION {[1..n -> 0..MaxOff] : n \in 1..2}
           /\ modes = <<>> /\ scheme = 0
Next == FALSE /\ UNCHANGED vars
Spec == Init /\ [][Next]_vars

\* every degree of freedom exactly once
Range(s) == {s[i] : i \in 1..Len(s)}
Dofs == {<<"ph", m - 1, i>> : m \in 1..Len(modes), i \in 0..(MaxModes - 1)} 
HolsteinOnce == kind = "holstein" =>
    /\ \A i, j \in 1..Len(HolsteinOrder) : i # j => HolsteinOrder[i] # HolsteinOrder[j]
    /\ Len(HolsteinOrder) = SumTo(modes, Len(modes)) + (IF scheme < 4 THEN Len(modes) ELSE 1)
    /\ (scheme = 4 => HolsteinOrder[SumTo(modes, Len(modes) \div 2) + 1] = <<"E">>)
TiSupport(i) == [k \in 1..Len(offs) |-> (i + offs[k]) % ncell]
TiInRange == kind = "ti" => \A i \in 0..(ncell - 1) : \A k \in 1..Len(offs) : TiSupport(i)[k] \in 0..(ncell - 1)

Emit == PrintT(<<"EMIT", ToJson(IF kind = "holstein"
                                 THEN [kind |-> kind, modes |-> modes, scheme |-> scheme, order |-> HolsteinOrder]
                                 ELSE [kind |-> kind, ncell |-> ncell, offs |-> offs, support |-> [i \in 1..ncell |-> TiSupport(i - 1)]])>>)
=============================================================================
