-------------------------------- MODULE TtnHeap --------------------------------
(* API-level abstract machine for tree tensor network states (renormalizer/tn/tree.py), the tree counterpart of MpHeap.
   A TTNS has no movable centre: canonicalise() pushes the centre to the root, TTNS.random returns a canonical state.
     val   formal Gaussian-integer combination of  op_k ... op_1 g   (same bags as MpHeap)
     Q     total quantum number           cano   every non-root node is an isometry towards its parent
     cplx  complex dtype
   Actions = public calls: Copy, Scale(+inplace), Add, Apply (TTNO.apply), Canonicalise, CompressLossless,
   ToComplexInplace.  The topology is a parameter of the replay, not of this machine: every behaviour is replayed on
   every tree emitted by TtnoColumns (and on its mirror image with the children of every node listed in reverse). *)
EXTENDS Integers, Sequences, FiniteSets, TLC, Json
CONSTANTS Handles, NGens, MaxOps, MaxCoef, Depth, Sector0, MaxQ

Ops == {"H", "Cr", "An"}
Charge(o) == IF o = "Cr" THEN 1 ELSE IF o = "An" THEN -1 ELSE 0
RECURSIVE SumCharge(_)
SumCharge(s) == IF s = <<>> THEN 0 ELSE Charge(Head(s)) + SumCharge(Tail(s))
MonoCharge(m) == Sector0 + SumCharge(m[1])
Re(B, m) == IF \E p \in B : p[1] = m THEN (CHOOSE p \in B : p[1] = m)[2] ELSE 0
Im(B, m) == IF \E p \in B : p[1] = m THEN (CHOOSE p \in B : p[1] = m)[3] ELSE 0
Supp(B) == {p[1] : p \in B}
Mk(ms, re(_), im(_)) == {<<m, re(m), im(m)>> : m \in {x \in ms : re(x) # 0 \/ im(x) # 0}}
BAdd(B1, B2) == Mk(Supp(B1) \cup Supp(B2), LAMBDA m : Re(B1, m) + Re(B2, m), LAMBDA m : Im(B1, m) + Im(B2, m))
BScale(B, k) == {<<p[1], k[1] * p[2] - k[2] * p[3], k[1] * p[3] + k[2] * p[2]>> : p \in B}
BApply(B, o) == {<< <<Append(p[1][1], o), p[1][2]>>, p[2], p[3]>> : p \in B}
Small(B) == \A p \in B : p[2] \in (0 - MaxCoef)..MaxCoef /\ p[3] \in (0 - MaxCoef)..MaxCoef
Scalars == {<<0 - 1, 0>>, <<2, 0>>, <<0, 1>>}

VARIABLES live, val, Q, cano, cplx, steps, hist, c0
vars == <<live, val, Q, cano, cplx, steps, hist, c0>>
Init == /\ live = 1..NGens
        /\ val = [h \in Handles |-> IF h \in 1..NGens THEN {<< <<<<>>, h>>, 1, 0 >>} ELSE {}]
        /\ Q = [h \in Handles |-> IF h \in 1..NGens THEN Sector0 ELSE 0]
        /\ cano = [h \in Handles |-> h \in 1..NGens]            \* TTNS.random is canonical
        /\ c0 \in BOOLEAN                                          \* is the first generator already complex (e.g. the result of a real-time step)?
        /\ cplx = [h \in Handles |-> h = 1 /\ c0] /\ steps = 0 /\ hist = <<>>
Set(h, v, q, cn, z, ev) ==
  /\ val' = [val EXCEPT ![h] = v] /\ Q' = [Q EXCEPT ![h] = q] /\ cano' = [cano EXCEPT ![h] = cn] /\ cplx' = [cplx EXCEPT ![h] = z]
  /\ live' = live \cup {h} /\ steps' = steps + 1 /\ c0' = c0
  /\ hist' = Append(hist, [ev EXCEPT !.post = [h |-> h, val |-> v, Q |-> q, cano |-> cn, cplx |-> z]])
Ev(a, x, y, r, o, k) == [a |-> a, x |-> x, y |-> y, r |-> r, o |-> o, k |-> k, post |-> <<>>]
Free == IF Handles \ live = {} THEN Handles ELSE {CHOOSE h \in Handles \ live : \A g \in Handles \ live : h <= g}

Copy(x, h) == /\ x \in live /\ h \in Free /\ h # x /\ Set(h, val[x], Q[x], cano[x], cplx[x], Ev("Copy", x, 0, h, "", <<0, 0>>))
\* TTNS.scale multiplies the root tensor; a unit-modulus... any non-zero factor keeps the non-root isometries
ScaleInplace(x, k) == /\ x \in live /\ Small(BScale(val[x], k))
                      /\ Set(x, BScale(val[x], k), Q[x], cano[x], cplx[x] \/ k[2] # 0, Ev("ScaleInplace", x, 0, x, "", k))
Scale(x, k, h) == /\ x \in live /\ h \in Free /\ h # x /\ Small(BScale(val[x], k))
                  /\ Set(h, BScale(val[x], k), Q[x], cano[x], cplx[x] \/ k[2] # 0, Ev("Scale", x, 0, h, "", k))
Add(x, y, h) == /\ x \in live /\ y \in live /\ Q[x] = Q[y] /\ h \in Free /\ h \notin {x, y}
                /\ Small(BAdd(val[x], val[y])) /\ BAdd(val[x], val[y]) # {}
                /\ Set(h, BAdd(val[x], val[y]), Q[x], FALSE, cplx[x] \/ cplx[y], Ev("Add", x, y, h, "", <<0, 0>>))
Apply(o, x, h) == /\ x \in live /\ h \in Free /\ h # x /\ \A p \in val[x] : Len(p[1][1]) < MaxOps
                  /\ Q[x] + Charge(o) \in 0..MaxQ
                  /\ Set(h, BApply(val[x], o), Q[x] + Charge(o), FALSE, cplx[x], Ev("Apply", x, 0, h, o, <<0, 0>>))
Canonicalise(x) == /\ x \in live /\ Set(x, val[x], Q[x], TRUE, cplx[x], Ev("Canonicalise", x, 0, x, "", <<0, 0>>))
\* TTNS.compress asserts nothing but is meaningful on a canonical state only
CompressLossless(x) == /\ x \in live /\ cano[x] /\ Set(x, val[x], Q[x], TRUE, cplx[x], Ev("CompressLossless", x, 0, x, "", <<0, 0>>))
ToComplexInplace(x) == /\ x \in live /\ ~cplx[x] /\ Set(x, val[x], Q[x], cano[x], TRUE, Ev("ToComplexInplace", x, 0, x, "", <<0, 0>>))
ToComplex(x, h) == /\ x \in live /\ h \in Free /\ h # x /\ Set(h, val[x], Q[x], cano[x], TRUE, Ev("ToComplex", x, 0, h, "", <<0, 0>>))

Next == /\ steps < Depth
        /\ \/ \E x, h \in Handles : Copy(x, h) \/ ToComplex(x, h)
           \/ \E x \in Handles, k \in Scalars : ScaleInplace(x, k)
           \/ \E x, h \in Handles, k \in Scalars : Scale(x, k, h)
           \/ \E x, y, h \in Handles : Add(x, y, h)
           \/ \E o \in Ops, x, h \in Handles : Apply(o, x, h)
           \/ \E x \in Handles : Canonicalise(x) \/ CompressLossless(x) \/ ToComplexInplace(x)
Spec == Init /\ [][Next]_vars

SectorInv == \A h \in live : \A p \in val[h] : MonoCharge(p[1]) = Q[h]
Frame == [][\A h \in Handles : (h \in live /\ val'[h] # val[h]) => hist'[Len(hist')].r = h]_vars
ValuePreserving == [][(steps' = steps + 1 /\ hist'[Len(hist')].a \in {"Canonicalise", "CompressLossless", "ToComplexInplace"})
                        => \A h \in live : val'[h] = val[h]]_vars
EmitLeaf == (steps = Depth) => PrintT(<<"EMIT", ToJson([hist |-> hist, c0 |-> c0])>>)
EmitLeafSim == (steps = Depth /\ RandomElement(1..50) = 1) => PrintT(<<"EMIT", ToJson([hist |-> hist, c0 |-> c0])>>)
\* "derive b from a, then mutate one of them in place": every such depth-2 history (run with Depth = 2), replayed on every selected tree
EmitDeriveMutate == (steps = 2 /\ hist[1].a \in {"Copy", "ToComplex", "Scale"} /\ hist[2].a \in {"ScaleInplace", "ToComplexInplace"}
                     /\ hist[2].x \in {hist[1].x, hist[1].r})
                    => PrintT(<<"EMIT", ToJson([hist |-> hist, c0 |-> c0])>>)
=============================================================================
