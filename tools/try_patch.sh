#!/bin/sh
# tools/try_patch.sh <patch.diff> <Cxx> [tier] : apply the patch in a private scratch worktree of /repo HEAD (never /repo itself),
# run the check against it (VERIF_REPO), print the violation keys, remove the worktree.  Evidence goes to a scratch directory.
P="$1"; C="$2"; T="${3:-quick}"
WT="/tmp/verif-try-$$"
git -C /repo worktree add --detach "$WT" HEAD >/dev/null 2>&1 || { echo "cannot create worktree"; exit 2; }
trap 'git -C /repo worktree remove --force "$WT" >/dev/null 2>&1; rm -rf /tmp/verif-try-ev-$$' EXIT INT TERM HUP
if ! git -C "$WT" apply "$P" 2>/tmp/try_patch.err && ! git -C "$WT" apply --3way "$P" 2>>/tmp/try_patch.err; then echo "patch does not apply"; cat /tmp/try_patch.err; exit 2; fi
cd /verif && VERIF_REPO="$WT" VERIF_EVIDENCE_DIR=/tmp/verif-try-ev-$$ timeout 2400 ./check "$C" --tier "$T" > /tmp/try_patch.$$.log 2>&1; rc=$?
grep -E "^  key=|MACHINERY|SPEC-DRIFT|^\[C" /tmp/try_patch.$$.log | grep -v KNOWN | cut -c1-260 | head -8
echo "exit=$rc"
rm -f /tmp/try_patch.$$.log
