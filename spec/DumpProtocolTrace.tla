-------------------------- MODULE DumpProtocolTrace --------------------------
(* code -> spec: the file-system call sequences recorded from real TdMpsJob runs (with injected deaths and
   IOErrors) must be behaviours of DumpProtocol.  One JSON file holds many traces; `tid` selects one, `l` is
   the position in it.  Each event is matched by the spec action of the same name with the logged result
   bound (exists -> the spec's own answer must equal the logged one; targets must agree).                 *)
EXTENDS DumpProtocol, IOUtils
TraceLog == JsonDeserialize(IOEnv.TRACE_FILE)

VARIABLES tid, l
tvars == <<vars, tid, l>>
Tr == TraceLog[tid]
Ev == Tr[l]
Is(name) == l <= Len(Tr) /\ Ev.ev = name /\ l' = l + 1 /\ UNCHANGED tid

TInit == Init /\ tid \in 1..Len(TraceLog) /\ l = 1

TDump == Is("dump") /\ Compute /\ step' = Ev.step
TExistsFile == Is("exists") /\ pc = "exists_file" /\ Ev.target = "file" /\ Ev.res = (file # None) /\ ExistsFile
TExistsBak == Is("exists") /\ pc = "exists_bak" /\ Ev.target = "bak" /\ Ev.res = (bak # None) /\ ExistsBak
TExistsBak2 == Is("exists") /\ pc = "exists_bak2" /\ Ev.target = "bak" /\ Ev.res = (bak # None) /\ ExistsBak2
TRemoveBak == Is("remove") /\ Ev.target = "bak" /\ (RemoveBak \/ Cleanup)
TRename == Is("rename") /\ Ev.src = "file" /\ Ev.dst = "bak" /\ Rename
TWriteBegin == Is("write_begin") /\ Ev.target = (IF Protocol = "replace" THEN "tmp" ELSE "file") /\ WriteBegin
TWriteEnd == Is("write_end") /\ WriteEnd
TWriteFail == Is("write_fail") /\ WriteFail
TReplace == Is("replace") /\ Ev.src = "tmp" /\ Ev.dst = "file" /\ Replace
TCrash == Is("crash") /\ Crash

TNext == TDump \/ TExistsFile \/ TExistsBak \/ TExistsBak2 \/ TRemoveBak \/ TRename \/ TWriteBegin \/ TWriteEnd
         \/ TWriteFail \/ TReplace \/ TCrash
TSpec == TInit /\ [][TNext]_tvars

\* progress report: the harness accepts a trace iff some state with l = Len + 1 was reached
Progress == PrintT(<<"VERDICT", ToJson([tid |-> tid, l |-> l, len |-> Len(Tr), recoverable |-> Recoverable])>>)
=============================================================================
