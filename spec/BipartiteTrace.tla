---------------------------- MODULE BipartiteTrace ----------------------------
(* code -> spec: every (graph, returned tables) pair recorded at real calls of
   bipartite_vertex_cover (made while Mpo/TTNO objects are built, or by the C20 driver)
   is judged against the specification's definition of a minimum vertex cover.
   A record:  nu, nv, edges = list of [u, v] (1-based), cu / cv = lists of selected vertices.  *)
EXTENDS Integers, FiniteSets, Sequences, TLC, Json, IOUtils
Recs == JsonDeserialize(IOEnv.TRACE_FILE)
VARIABLE i
Init == i \in 1..Len(Recs)
Next == FALSE /\ UNCHANGED i

EdgeSet(r) == {<<r.edges[k][1], r.edges[k][2]>> : k \in 1..Len(r.edges)}
SetOf(s) == {s[k] : k \in 1..Len(s)}
Valid(r) == \A e \in EdgeSet(r) : e[1] \in SetOf(r.cu) \/ e[2] \in SetOf(r.cv)
InRange(r) == SetOf(r.cu) \subseteq 1..r.nu /\ SetOf(r.cv) \subseteq 1..r.nv
CoverSizes(r) == {Cardinality(c[1]) + Cardinality(c[2]) :
                    c \in {c \in (SUBSET (1..r.nu)) \X (SUBSET (1..r.nv)) :
                             \A e \in EdgeSet(r) : e[1] \in c[1] \/ e[2] \in c[2]}}
MinSize(r) == CHOOSE k \in CoverSizes(r) : \A m \in CoverSizes(r) : k <= m
Verdict == LET r == Recs[i] IN
   PrintT(<<"VERDICT", ToJson([id |-> r.id, valid |-> Valid(r), inrange |-> InRange(r),
                                size |-> Cardinality(SetOf(r.cu)) + Cardinality(SetOf(r.cv)),
                                minimum |-> MinSize(r)])>>)
=============================================================================
