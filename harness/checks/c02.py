"""C02 — TTNO construction is exact and independent of the tree topology.

TtnoColumns.tla models the column bookkeeping of construct_symbolic_ttno (post-order visit, np.roll(table, m), row/column
split, np.roll(table, -1)) for EVERY rooted ordered tree with K nodes and every assignment of 1-2 basis sets / dummy nodes:
TLC checks that at every visit the rolled-in columns are exactly the children's bond columns in child order followed by
the node's own physical columns, that the table ends as the single root column, and the post-order facts.  Every tree
emitted by TLC is built with the real BasisTree / TTNO for term tables enumerated by TLC (SymbolicMpo) and compared
with the dense sum of products and with the chain Mpo of the same terms; the symbolic out-operators recorded from the
real construction are judged by TLC (SymbolicTtnoTrace: generalised denotation, root factor).  The tree constructors
(linear, binary, MCTDH of order 2-4 with/without contraction, T3NS) are checked to place every basis set exactly once.
"""
import json
import os
import tempfile

import numpy as np

from .. import tlc
from ..common import pmap, MachineryError, bootstrap, rng_for
from . import c01

LEVEL = "model_checking"
ALGOS = ["Hopcroft-Karp", "Hungarian", "qr"]


class TtnoRecorder:
    def __init__(self):
        self.calls = []
        self.primary = None

    def __enter__(self):
        import renormalizer.tn.symbolic_ttno as stt
        self.m = stt
        self.o1, self.o2 = stt._construct_symbolic_mpo_one_site, stt._terms_to_table
        rec = self

        def one_site(*a, **kw):
            res = rec.o1(*a, **kw)
            rec.calls.append(res)
            return res

        def t2t(*a, **kw):
            res = rec.o2(*a, **kw)
            rec.primary = res[1]
            return res
        stt._construct_symbolic_mpo_one_site = one_site
        stt._terms_to_table = t2t
        return self

    def __exit__(self, *a):
        self.m._construct_symbolic_mpo_one_site, self.m._terms_to_table = self.o1, self.o2


def _tree_chunk(args):
    bootstrap()
    from renormalizer.model import Model
    from renormalizer.mps import Mpo
    from renormalizer.tn import TTNO
    from .. import trees, replay_mpo, concretize as cz
    jobs, seed, tier = args
    out = {"cases": [], "viol": [], "traces": []}
    for (ti, tree, tabi, table) in jobs:
        sets = [0 if d else n for n, d in zip(tree["nsets"], tree["dummy"])]
        fam = cz.FAMILIES[(ti + tabi) % len(cz.FAMILIES)]
        if fam == "qn2":
            fam = "elec"
        tcase = trees.make_case(tree["par"], sets, fam, variant=(ti + tabi) % 3)
        try:
            bt, nodes, basis, alphas = trees.built(tcase)
        except Exception as e:
            out["viol"].append(("C02:tree-raises", f"building the basis tree raised {type(e).__name__}: {e}", {"tree": tree}))
            continue
        P = len(basis)
        inp = [(tuple(t["w"]), int(t["c"])) for t in table["input"]]
        rng = rng_for(seed, "c02", ti, tabi)
        qn_size = basis[0].sigmaqn.shape[1]
        for p in (0, 1):
            scale = {} if p == 0 else {w: float(10.0 ** rng.uniform(-2, 2)) * (1 if rng.random() < 0.5 else -1) for w, _ in inp}
            ref_terms = [(w, c * scale.get(w, 1.0)) for w, c in inp]
            ref = cz.dense_terms(ref_terms, basis, alphas).real
            if np.linalg.norm(ref) < 1e-9 * max(abs(c) for _, c in ref_terms):
                continue
            chain = None
            for algo in ALGOS:
                detail = {"tree": tree, "table": table["input"], "family": fam, "pass": p, "algo": algo}
                ops = replay_mpo.build_ops(inp, basis, alphas, scale, rng, qn_size)
                try:
                    with TtnoRecorder() as rec:
                        ttno = TTNO(bt, ops, algo=algo)
                    got = trees.dense_operator(ttno, order=list(basis))
                    got_lib = np.asarray(ttno.todense(list(basis)))
                    d = got.shape[0]
                    got_lib = got_lib.reshape(d, d) if got_lib.size == d * d else got_lib
                except Exception as e:
                    cls = "one-row-table" if len({w for w, _ in inp}) == 1 else "general"
                    out["viol"].append((f"C02:build-raises:{algo}:{cls}", f"TTNO(...) / todense raised {type(e).__name__}: {e}", detail))
                    continue
                out["cases"].append(json.dumps([tree["par"], sets, table["input"], fam, p, algo]))
                e1 = replay_mpo.relerr(got, ref)
                e2 = replay_mpo.relerr(got_lib, ref) if got_lib.shape == ref.shape else float("inf")
                if e1 > 1e-9 or e2 > 1e-9:
                    where = "tensors and todense" if e1 > 1e-9 else "TTNO.todense only (node tensors are right)"
                    out["viol"].append((f"C02:denotation:{algo}", f"TTNO differs from the dense sum of products: rel.err tensors={e1:.2e} todense={e2:.2e} [{where}]", detail))
                    continue
                if chain is None:
                    try:
                        chain = np.asarray(Mpo(Model(list(basis), []), replay_mpo.build_ops(inp, basis, alphas, scale, rng, qn_size), algo="Hopcroft-Karp").todense())
                    except Exception as e:
                        chain = False
                if chain is not False and replay_mpo.relerr(got, chain) > 1e-9:
                    out["viol"].append((f"C02:vs-chain:{algo}", "TTNO differs from the chain MPO of the same terms", detail))
                # ---- trace for TLC (graph algorithms, integer factors)
                if p == 0 and algo != "qr":
                    try:
                        tr = _export(rec, bt, basis, alphas, inp, f"{ti}/{tabi}/{algo}")
                        if tr is not None:
                            out["traces"].append(tr)
                    except Exception as e:
                        out["viol"].append(("C02:export-failed", f"could not export the recorded construction: {type(e).__name__}: {e}", detail))
    return out


def _export(rec, bt, basis, alphas, inp, cid):
    from itertools import chain
    nodes = bt.postorder_list()
    post_basis = list(chain(*[n.basis_sets for n in nodes]))
    npos = len(post_basis)
    prim = rec.primary
    # position of every physical basis set (construction order index) in the post-order table
    pos_of = {id(b): k + 1 for k, b in enumerate(post_basis)}
    maps = {}
    for bi, b in enumerate(basis):
        maps[id(b)] = {(ls.symbol, tuple(ls.dofs)): k + 1 for k, ls in enumerate(alphas[bi])}

    def sym_id(b, pidx):
        op = prim[pidx]
        if op.is_identity:
            return 0
        return maps[id(b)][(op.symbol, tuple(op.dofs))]
    out_nodes = []
    if len(rec.calls) != len(nodes):
        return None
    for ni, (node, (out_ops, table, factor)) in enumerate(zip(nodes, rec.calls)):
        k = node.n_sets
        children = [nodes.index(c) + 1 for c in node.children]
        outs = []
        for out_op in out_ops:
            lst = []
            for t in out_op:
                f = complex(t.factor)
                if abs(f.imag) > 0 or abs(f.real - round(f.real)) > 1e-12:
                    return None
                symbol = [int(x) for x in t.symbol]
                head, own = symbol[:-k], symbol[-k:]
                own_ids = [sym_id(b, pi) for b, pi in zip(node.basis_sets, own)]
                lst.append([[int(x) for x in head] + own_ids, int(round(f.real))])
            outs.append(lst)
        out_nodes.append({"children": children, "pos": [pos_of[id(b)] for b in node.basis_sets], "outs": outs})
    last_factor = rec.calls[-1][2]
    rf = []
    for x in np.atleast_1d(last_factor):
        if abs(complex(x).imag) > 0 or abs(complex(x).real - round(complex(x).real)) > 1e-12:
            return None
        rf.append(int(round(complex(x).real)))
    terms = []
    for w, c in inp:
        full = [0] * npos
        for bi, s in enumerate(w):
            full[pos_of[id(basis[bi])] - 1] = int(s)
        terms.append([full, int(c)])
    return {"id": cid, "npos": npos, "terms": terms, "nodes": out_nodes, "rootfactor": rf}


def _constructor_cases(_):
    bootstrap()
    from renormalizer.tn import BasisTree
    from .. import concretize as cz
    out = {"cases": [], "viol": []}
    for n in range(2, 13):
        basis, _ = cz.make_family("spin", n, 0)
        builders = [("linear", lambda b: BasisTree.linear(b)), ("binary", lambda b: BasisTree.binary(b)), ("t3ns", lambda b: BasisTree.t3ns(b))]
        for order in (2, 3, 4):
            builders.append((f"mctdh{order}", lambda b, o=order: BasisTree.general_mctdh(b, o)))
            builders.append((f"mctdh{order}-contract", lambda b, o=order: BasisTree.general_mctdh(b, o, contract_primitive=True)))
            lab = [bool((i * 7 + n) % 3) for i in range(n)]
            builders.append((f"mctdh{order}-label", lambda b, o=order, l=lab: BasisTree.general_mctdh(b, o, contract_primitive=True, contract_label=l)))
        for name, fn in builders:
            out["cases"].append(f"ctor/{name}/{n}")
            try:
                t = fn(list(basis))
            except Exception as e:
                out["viol"].append((f"C02:constructor-raises:{name}", f"{name}({n} basis sets) raised {type(e).__name__}: {e}", {"n": n, "constructor": name}))
                continue
            phys = [b for b in t.basis_list if b.__class__.__name__ != "BasisDummy"]
            if sorted(id(b) for b in phys) != sorted(id(b) for b in basis):
                out["viol"].append((f"C02:constructor:{name}", f"{name}({n}): the tree does not contain every basis set exactly once ({len(phys)} physical sets)", {"n": n, "constructor": name}))
            # every node reachable exactly once, parent links consistent
            seen = set()
            for node in t.node_list:
                if id(node) in seen:
                    out["viol"].append((f"C02:constructor:{name}", "a node occurs twice in the tree", {"n": n}))
                seen.add(id(node))
                for ch in node.children:
                    if ch.parent is not node:
                        out["viol"].append((f"C02:constructor:{name}", "child/parent links inconsistent", {"n": n}))
    return out


def _shape(t, ba):
    par, bs, dummies = [], [], []
    for node in t.node_list:
        par.append(-1 if node.parent is None else t.node_idx[node.parent])
        row = []
        for b in node.basis_sets:
            if isinstance(b, ba.BasisDummy):
                row.append(0)
                dummies.append(b.dof[-1] if isinstance(b.dof, tuple) else None)
            elif isinstance(b.dof, tuple) and b.dof[0] == "Q":
                d = b.dof[1]
                row.append(-int(d[0] if isinstance(d, (list, tuple)) else d))
            else:
                row.append(int(b.dof))
        bs.append(row)
    return par, bs, dummies


def _builder_shape_cases(cases):
    """TreeBuilders.tla -> code: every tree emitted by TLC is compared node by node (preorder parent vector, basis sets per node,
    numbering of the virtual nodes) with the tree the real constructor returns for the same arguments.  The shape of a
    builder's tree is not one of the listed properties (any tree gives the same operator, which the dense comparisons decide),
    so a mismatch is reported as SPEC-DRIFT; a tree that loses or repeats a basis set is a violation in _constructor_cases."""
    bootstrap()
    from renormalizer.tn import BasisTree
    from renormalizer.model import basis as ba
    out = {"cases": [], "drift": [], "rejected_corrupted": 0}
    for c in cases:
        cid = f"shape/{c['builder']}/n{c['n']}/k{c['k']}/{int(bool(c['contract']))}/{''.join(map(str, c['lab']))}/{c['phase']}"
        out["cases"].append(cid)
        try:
            bl = [ba.BasisHalfSpin(i) for i in range(1, c["n"] + 1)]
            b = c["builder"]
            if b == "linear":
                t = BasisTree.linear(bl)
            elif b == "binary":
                t = BasisTree.binary(bl)
            elif b == "t3ns":
                t = BasisTree.t3ns(bl)
            else:
                t = BasisTree.general_mctdh(bl, c["k"], contract_primitive=bool(c["contract"]), contract_label=[bool(x) for x in c["lab"]] or None)
            if c["phase"] == "aux":
                t = t.add_auxiliary_space()
            par, bs, dummies = _shape(t, ba)
        except Exception as e:
            out["drift"].append((f"C02:shape:{c['builder']}:raises", f"{cid}: {type(e).__name__}: {e}", {"case": c}))
            continue
        exp_par, exp_bs = list(c["par"]), [list(r) for r in c["basis"]]
        if c.get("_corrupted"):
            out["rejected_corrupted"] += int((par, bs) != (exp_par, exp_bs))
            continue
        if (par, bs) != (exp_par, exp_bs):
            out["drift"].append((f"C02:shape:{c['builder']}", f"{cid}: the constructed tree is not the tree of TreeBuilders.tla: parents {par} basis {bs}, "
                                 f"specified parents {exp_par} basis {exp_bs}", {"case": c, "par": par, "basis": bs}))
        elif dummies != list(range(len(dummies))):
            out["drift"].append((f"C02:shape:{c['builder']}:virtual-numbering", f"{cid}: virtual nodes are not numbered in preorder: {dummies}", {"case": c}))
    return out


def _param_history_cases(args):
    """Several operators built in ONE process on the same degrees of freedom and basis sizes but different basis parameters
    (a frequency / displacement scan): every construction must use the matrices of ITS basis sets."""
    bootstrap()
    from renormalizer.model import Op, basis as ba
    from renormalizer.tn import BasisTree, TTNO
    from renormalizer.tn.node import TreeNodeBasis
    seed, k = args
    out = {"cases": [], "viol": []}
    rng = rng_for(seed, "c02-params", k)
    for shape in ("chain", "star"):
        for step in range(3):
            omega = [float(rng.uniform(0.4, 2.0)) for _ in range(2)]
            x0 = [float(rng.uniform(-0.5, 0.5)) if step else 0.0 for _ in range(2)]
            detail = {"shape": shape, "step": step, "omega": omega, "x0": x0, "k": k}
            out["cases"].append(json.dumps(detail))
            try:
                bs = [ba.BasisHalfSpin("s"), ba.BasisSHO("v0", omega[0], 4, x0=x0[0]), ba.BasisSHO("v1", omega[1], 3, x0=x0[1])]
                nodes = [TreeNodeBasis([b]) for b in bs]
                if shape == "chain":
                    nodes[0].add_child(nodes[1])
                    nodes[1].add_child(nodes[2])
                else:
                    nodes[0].add_child(nodes[1])
                    nodes[0].add_child(nodes[2])
                tree = BasisTree(nodes[0])
                terms = [Op("sigma_z", "s", 0.7), Op("x", "v0", 0.5), Op("x^2", "v1", 0.3), Op("sigma_x x", ["s", "v0"], 0.4), Op("x x", ["v0", "v1"], -0.6),
                         Op(r"b^\dagger b", "v1", 1.1), Op("p^2", "v0", 0.2)]
                for algo in ("Hopcroft-Karp", "qr"):
                    got = np.asarray(TTNO(tree, terms, algo=algo).todense(bs))
                    ref = np.zeros_like(got, dtype=complex)
                    for t in terms:
                        mats = []
                        for b in bs:
                            if b.dof in t.dofs:
                                sub = [sy for sy, d_ in zip(t.split_symbol, t.dofs) if d_ == b.dof]
                                mats.append(np.asarray(b.op_mat(Op(" ".join(sub), [b.dof] * len(sub)))))
                            else:
                                mats.append(np.eye(b.nbas))
                        full = np.eye(1)
                        for m_ in mats:
                            full = np.kron(full, m_)
                        ref = ref + t.factor * full
                    d_ = np.linalg.norm(got - ref)
                    if d_ > 1e-10 * (np.linalg.norm(ref) + 1):
                        out["viol"].append((f"C02:parameter-history:{algo}", f"construction number {step + 1} in this process (omega={omega}, x0={x0}) differs from the sum of products of ITS basis matrices by {d_:.2e}", detail))
            except Exception as e:
                out["viol"].append((f"C02:parameter-history:raises:{type(e).__name__}", f"{type(e).__name__}: {e}", detail))
    return out


SHAPE_INVS = ["IsPreorder", "AllOnce", "KeepsOrder", "Arity", "MctdhLeaves", "Contracted", "LabelRespected", "MctdhDepth", "AuxPairs"]


def _builder_shapes(ctx):
    """TreeBuilders.tla: design claims on every argument combination inside the bounds, the recorded deviation (must fail),
    and the emitted trees replayed into the real constructors."""
    consts = dict(MaxN=8, MaxK=4) if ctx.tier == "quick" else dict(MaxN=11, MaxK=4)
    r = tlc.run("TreeBuilders", tlc.make_cfg(constants=consts, spec="Spec", invariants=SHAPE_INVS), vacuity=True, timeout=3000)
    ctx.add_tlc(r, f"TreeBuilders {consts}: linear/binary/t3ns/mctdh (all contraction labels) + auxiliary space")
    if r["violated"]:
        ctx.violation(f"C02:spec:TreeBuilders:{r['violated']}", "TreeBuilders violates " + r["violated"], {"tlc": (r.get("error_text") or "")[:2000]})
    r = tlc.run("TreeBuilders", tlc.make_cfg(constants=dict(MaxN=6, MaxK=3), spec="Spec", invariants=["NoDummyLeaf"]), timeout=600, expect_violation=True)
    ctx.add_tlc(r, "recorded deviation (must fail): general_mctdh creates childless virtual nodes")
    if r["violated"] != "NoDummyLeaf":
        raise MachineryError("TreeBuilders: NoDummyLeaf was expected to fail (4 elementary nodes, order 3)")
    e = tlc.run("TreeBuilders", tlc.make_cfg(constants=consts, spec="Spec", invariants=["EmitTree"]), mode="emit", timeout=3000)
    ctx.add_tlc(e, "emit builder trees")
    cases = e["emitted"]
    if len(cases) < 100:
        raise MachineryError("TreeBuilders emitted too few trees")
    import copy
    bad = []
    for c in cases[:: max(1, len(cases) // 40)]:
        if len(c["par"]) >= 3:
            b = copy.deepcopy(c)
            b["_corrupted"] = True
            b["par"][-1] = b["par"][-1] - 1 if b["par"][-1] > 0 else b["par"][-1] + 1
            bad.append(b)
    n = 16
    allc = cases + bad
    rejected = 0
    for st_, o in pmap(_builder_shape_cases, [allc[i::n] for i in range(n) if allc[i::n]], chunksize=1):
        if st_ != "ok":
            raise MachineryError("builder-shape worker failed: " + o)
        for c in o["cases"]:
            ctx.case(fingerprint=c, nontrivial=True)
        for key, what, detail in o["drift"]:
            ctx.drift(key, what, detail)
        rejected += o["rejected_corrupted"]
    if rejected != len(bad):
        raise MachineryError(f"binding demonstration failed: {len(bad) - rejected} corrupted builder trees were accepted")
    ctx.notes["builder_shape_binding_demo"] = {"corrupted_copies": len(bad), "rejected": rejected}


def run(ctx):
    tier = ctx.tier
    Ks = (2, 3, 4) if tier == "quick" else (2, 3, 4, 5)
    trees_ = []
    for K in Ks:
        cfg = tlc.make_cfg(constants=dict(K=K, MaxSets=2), spec="Spec", invariants=["Aligned", "Final", "PostOrderInv"])
        r = tlc.run("TtnoColumns", cfg, vacuity=True, timeout=3000)
        ctx.add_tlc(r, f"TtnoColumns K={K}: all trees x 1-2 sets per node x dummy placements")
        if r["violated"]:
            ctx.violation(f"C02:spec:{r['violated']}", "TtnoColumns violates " + r["violated"], {"tlc": r.get("error_text", "")[:2000]})
        cfg = tlc.make_cfg(constants=dict(K=K, MaxSets=2), spec="Spec", invariants=["EmitTree"], constraints=["NoExpand"])
        e = tlc.run("TtnoColumns", cfg, mode="emit", timeout=3000)
        ctx.add_tlc(e, f"emit trees K={K}")
        for t in e["emitted"]:
            P = sum(0 if d else n for n, d in zip(t["nsets"], t["dummy"]))
            if 2 <= P <= 5:
                trees_.append(t)
    # term tables per number of physical basis sets, enumerated by TLC (SymbolicMpo)
    tables = {}
    for P in (2, 3, 4, 5):
        consts = dict(N=P, A=2 if P <= 3 else 1, MaxTerms=3 if P <= 4 else 2, MaxList=3 if P <= 4 else 2, MaxSwaps=0)
        cfg = tlc.make_cfg(constants=consts, init="InitSets", invariants=["EmitCase"], constraints=["OnlyInit"], subst={"Factors": "SignedFactors"} if P <= 3 else None) \
            if P <= 3 else tlc.make_cfg(constants=dict(consts, Factors="{1, 2}"), init="InitSets", invariants=["EmitCase"], constraints=["OnlyInit"])
        e = tlc.run("SymbolicMpo", cfg, mode="emit", timeout=3000)
        ctx.add_tlc(e, f"emit term tables over {P} basis sets")
        tables[P] = e["emitted"]
    import random
    rnd = random.Random(ctx.seed)
    per_tree = 3 if tier == "quick" else 12
    if tier == "quick" and len(trees_) > 220:
        trees_ = rnd.sample(trees_, 220)
    jobs = []
    for ti, t in enumerate(trees_):
        P = sum(0 if d else n for n, d in zip(t["nsets"], t["dummy"]))
        # always include a one-row table with a prefactor (fast path / root factor), then random ones
        one = [x for x in tables[P] if len(x["input"]) == 1 and x["input"][0]["c"] != 1]
        picks = ([rnd.choice(one)] if one else []) + [rnd.choice(tables[P]) for _ in range(per_tree)]
        for tabi, tab in enumerate(picks):
            jobs.append((ti, t, tabi, tab))
    n = 64
    res = pmap(_tree_chunk, [(jobs[i::n], ctx.seed, tier) for i in range(n) if jobs[i::n]], chunksize=1)
    traces = []
    for st_, o in res:
        if st_ != "ok":
            raise MachineryError("C02 worker failed: " + o)
        for c in o["cases"]:
            ctx.case(fingerprint=c, nontrivial=True)
        for key, what, detail in o["viol"]:
            ctx.violation(key, what, detail)
        traces += o["traces"]
    for st_, o in pmap(_param_history_cases, [(ctx.seed, k) for k in range(2 if tier == "quick" else 8)], chunksize=1):
        if st_ != "ok":
            raise MachineryError("parameter-history worker failed: " + o)
        for c in o["cases"]:
            ctx.case(fingerprint=c, nontrivial=True)
        for key, what, detail in o["viol"]:
            ctx.violation(key, what, detail)
    st_, o = pmap(_constructor_cases, [0], chunksize=1)[0]
    if st_ != "ok":
        raise MachineryError("constructor worker failed: " + o)
    for c in o["cases"]:
        ctx.case(fingerprint=c, nontrivial=True)
    for key, what, detail in o["viol"]:
        ctx.violation(key, what, detail)
    _builder_shapes(ctx)
    if not traces:
        raise MachineryError("no symbolic TTNO exported for TLC")
    B = 1500
    # binding demonstration: a copy of a recorded tree operator judged against input terms with one changed coefficient must be rejected
    import copy
    bad = copy.deepcopy(next((t for t in traces if t["terms"]), traces[0]))
    bad["id"] = "corrupted/copy/none"
    bad["terms"][0][1] = bad["terms"][0][1] + 1
    traces = list(traces) + [bad]
    for k in range(0, len(traces), B):
        batch = traces[k:k + B]
        with tempfile.NamedTemporaryFile("w", suffix=".json", delete=False) as fh:
            json.dump(batch, fh)
            path = fh.name
        try:
            cfg = tlc.make_cfg(init="Init", next_="Next", invariants=["Verdict"])
            rt = tlc.run("SymbolicTtnoTrace", cfg, mode="trace", env={"TRACE_FILE": path}, timeout=3000)
        finally:
            os.unlink(path)
        ctx.add_tlc(rt, "SymbolicTtnoTrace batch")
        if len(rt["verdicts"]) != len(batch):
            raise MachineryError("SymbolicTtnoTrace verdict count mismatch")
        byid = {t["id"]: t for t in batch}
        for v in rt["verdicts"]:
            if v["id"] == "corrupted/copy/none":
                if v["wellformed"] and v["denotes"]:
                    raise MachineryError("binding demonstration failed: SymbolicTtnoTrace accepted a recorded operator against changed input terms")
                ctx.notes["binding_demonstration"] = "corrupted copy (one input coefficient + 1) rejected by SymbolicTtnoTrace"
                continue
            ctx.traces(1)
            if not (v["wellformed"] and v["denotes"]):
                algo = v["id"].split("/")[2]
                cls = "root-factor-dropped" if (v["wellformed"] and not v["rootfactor_is_one"]) else "general"
                ctx.violation(f"C02:trace-denotation:{algo}:{cls}", f"TLC: the symbolic tree operator recorded from the real construction does not denote the input terms ({v})", byid[v["id"]])
    ctx.sample({"tree_from_TLC": trees_[len(trees_) // 2]})
    ctx.sample({"recorded_construction_judged_by_TLC": traces[(len(traces) - 1) // 2]})
    ctx.cov["rule"] = ("every rooted ordered tree with 2..4 (thorough 5) nodes x every assignment of 1-2 basis sets / dummy nodes with 2..5 physical basis sets (TLC), each with a "
                       "one-row table carrying a prefactor and random term tables enumerated by TLC, 6 model families, integer and scaled real factors, three algorithms; "
                       "plus every tree constructor for 2..12 basis sets; distinct = (tree, grouping, table, family, pass, algorithm)")
    ctx.assumptions += ["TTNO supports real operators only (library asserts); complex factors are not exercised for trees"]
