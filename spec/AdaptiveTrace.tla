---------------------------- MODULE AdaptiveTrace ----------------------------
(* code -> spec: the inner steps of the three adaptive step-size controllers of mps/mps.py (adaptive_tdvp,
   _evolve_prop_and_compress, _evolve_prop_and_compress_tdrk), recorded from real Mps.evolve calls, are judged against
   the rules of Adaptive.tla.  Times are scaled so that the requested step is `target` (10^6) units; `tol` absorbs
   rounding.  Events of one record, in order:
     [ev |-> "try",    dt, guess]   dt = the trial step, guess = the controller's guess before the trial
     [ev |-> "reject", guess]       the trial was discarded, guess = the new guess
     [ev |-> "accept", guess]       the trial was accepted and more time remains
     [ev |-> "last",   guess]       the trial was accepted and completes the requested step
   The verdict is total: "ok" or the name of the first clause that fails.                                           *)
EXTENDS Integers, Sequences, TLC, Json, IOUtils
Recs == JsonDeserialize(IOEnv.TRACE_FILE)
VARIABLE i
Init == i \in 1..Len(Recs)
Next == FALSE /\ UNCHANGED i
Min(a, b) == IF a < b THEN a ELSE b
Near(a, b, t) == a - b <= t /\ b - a <= t

RECURSIVE Judge(_, _, _, _, _, _)
Judge(r, k, evolved, guess, dt, pc) ==
  IF k > Len(r.events) THEN (IF pc = "done" \/ ~r.complete THEN "ok" ELSE "Terminates")   \* complete = FALSE: a recorded prefix
  ELSE LET e == r.events[k]  t == r.tol IN
    CASE e.ev = "try" ->
           IF pc # "loop" THEN "TryOutOfTurn"
           ELSE IF guess >= 0 /\ ~Near(e.guess, guess, t) THEN "GuessCarried"        \* the guess of the previous verdict is the one used
           ELSE IF ~Near(e.dt, Min(e.guess, r.target - evolved), t) THEN "Dt"        \* dt = min_abs(guess, target - evolved)
           ELSE IF e.dt <= 0 THEN "Progress"
           ELSE IF evolved + e.dt > r.target + t THEN "NoOvershoot"
           ELSE Judge(r, k + 1, evolved, e.guess, e.dt, "tried")
      [] e.ev = "reject" ->
           IF pc # "tried" THEN "VerdictOutOfTurn"
           ELSE IF 2 * e.guess > dt + t THEN "RejectShrinks"                         \* p < p_restart = 0.5
           ELSE IF 10 * e.guess < dt - 10 * t THEN "RejectFloor"                     \* p >= p_min = 0.1
           ELSE Judge(r, k + 1, evolved, e.guess, 0, "loop")                         \* the state is NOT advanced
      [] e.ev = "accept" ->
           IF pc # "tried" THEN "VerdictOutOfTurn"
           ELSE IF evolved + dt >= r.target - t THEN "AcceptMoreAtTheEnd"
           ELSE IF 2 * e.guess < guess - 2 * t \/ e.guess > 2 * guess + t THEN "GuessGrowth"   \* guess *= p, 0.5 <= p <= 2
           ELSE Judge(r, k + 1, evolved + dt, e.guess, 0, "loop")
      [] e.ev = "last" ->
           IF pc # "tried" THEN "VerdictOutOfTurn"
           ELSE IF ~Near(evolved + dt, r.target, t) THEN "TimeAccounting"            \* accepted steps sum to the requested step
           ELSE IF e.guess > guess + t THEN "LastGuess"
           ELSE Judge(r, k + 1, r.target, e.guess, 0, "done")
      [] OTHER -> "UnknownEvent"

Verdict == LET r == Recs[i] IN PrintT(<<"VERDICT", ToJson([id |-> r.id, verdict |-> Judge(r, 1, 0, 0 - 1, 0, "loop")])>>)
=============================================================================
