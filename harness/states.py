"""Concrete chain / tree states in prescribed gauges, dense interpretation, independent invariants.

Gauge vocabulary (constructor-reachable representation states of a chain object):
  "fresh"      as Mps.random returns it: left-canonical, centre at the last site, sweeping to the left
  "cano1"      one canonicalise(): right-canonical, centre 0, sweeping to the right
  "cano2"      two canonicalise(): left-canonical again (bonds at their exact caps)
  "compress1"  one lossless compress()
  ("moved", k) fresh + move_qnidx(k): label centre away from the orthogonality centre
"""
import numpy as np

from . import concretize as cz
from .common import reseed_global, rng_for

GAUGES = ["fresh", "cano1", "cano2", "compress1"]


def chain_model(fam, nsites, variant=0):
    from renormalizer.model import Model
    basis, alphas = cz.make_family(fam, nsites, variant)
    return Model(list(basis), []), basis, alphas


def n_electron_sites(basis):
    return sum(1 for b in basis if b.is_electron)


def random_mps(model, qntot, m_max, keys, cplx=False, coeff=None, percent=1.0):
    from renormalizer.mps import Mps
    reseed_global(*keys)
    mps = Mps.random(model, qntot, m_max, percent)
    rng = rng_for(*keys, "post")
    if cplx:
        mps = complexify(mps, rng)
    if coeff is not None:
        mps.coeff = coeff
    return mps


def complexify(mp, rng):
    """Genuinely complex tensors with the same gauge/sector structure: a random unit-modulus diagonal gauge
    inserted on the first bond and a global phase (works for 3- and 4-leg site tensors)."""
    mp = mp.to_complex()
    n = len(mp)
    mp[n - 1] = mp[n - 1].array * np.exp(1j * rng.uniform(0, 2 * np.pi))
    if n > 1:
        d = mp[0].shape[-1]
        u = np.exp(1j * rng.uniform(0, 2 * np.pi, size=d))
        mp[0] = mp[0].array * u
        a1 = mp[1].array
        mp[1] = np.moveaxis(np.moveaxis(a1, 0, -1) * u.conj(), -1, 0)
    return mp


def to_gauge(mp, gauge):
    """In-place re-gauging through public calls only."""
    if gauge == "fresh":
        return mp
    if gauge == "cano1":
        mp.canonicalise()
    elif gauge == "cano2":
        mp.canonicalise()
        mp.canonicalise()
    elif gauge == "compress1":
        mp.compress_config.bond_dim_max_value = 10 ** 6
        from renormalizer.utils import CompressCriteria
        mp.compress_config.criteria = CompressCriteria.fixed
        mp.compress_config.max_bonddim = 10 ** 6
        mp.compress()
    elif isinstance(gauge, (tuple, list)) and gauge[0] == "moved":
        mp.move_qnidx(int(gauge[1]))
    else:
        raise ValueError(gauge)
    return mp


def dense(mp):
    """coeff * dense vector / matrix, contracted independently of the library's todense."""
    return cz.mps_dense(mp)


def arrays(mp):
    return [np.array(m.array if hasattr(m, "array") else m) for m in mp]


# ---------------------------------------------------------------------- independent representation invariants

def labels_valid(mp, tol=1e-10):
    """Entries that violate the selection rule for the STORED labels and centre must vanish.
    Returns (ok, worst offending magnitude relative to the tensor norm, site)."""
    from renormalizer.mps.svd_qn import add_outer
    worst, where = 0.0, None
    n = len(mp)
    qntot = np.asarray(mp.qntot).reshape(-1)
    for i, a in enumerate(arrays(mp)):
        ql = np.asarray(mp.qn[i])
        qr = np.asarray(mp.qn[i + 1])
        sig = np.asarray(mp._get_sigmaqn(i))
        if a.ndim == 4:
            sig = sig.reshape(a.shape[1], a.shape[2], -1)
        if ql.shape[0] != a.shape[0] or qr.shape[0] != a.shape[-1]:
            return False, float("inf"), i
        # left label convention: bonds <= qnidx carry left charges, bonds > qnidx carry right charges
        if a.ndim == 3:
            big = ql[:, None, None, :] + sig[None, :, None, :]
        else:
            big = ql[:, None, None, None, :] + sig[None, :, :, None, :]
        lidx, ridx = i, i + 1
        if ridx <= mp.qnidx:
            # both left charges: ql + sigma = qr
            viol = np.any(big != (qr[None, None, :, :] if a.ndim == 3 else qr[None, None, None, :, :]), axis=-1)
        elif lidx > mp.qnidx:
            # both right charges: qr + sigma = ql  <=> ql - sigma = qr
            if a.ndim == 3:
                viol = np.any((ql[:, None, None, :] - sig[None, :, None, :]) != qr[None, None, :, :], axis=-1)
            else:
                viol = np.any((ql[:, None, None, None, :] - sig[None, :, :, None, :]) != qr[None, None, None, :, :], axis=-1)
        else:
            # the centre site: left charge + sigma + right charge = qntot
            if a.ndim == 3:
                viol = np.any(big + qr[None, None, :, :] != qntot, axis=-1)
            else:
                viol = np.any(big + qr[None, None, None, :, :] != qntot, axis=-1)
        nrm = np.linalg.norm(a) + 1e-300
        bad = np.abs(a[viol]).max() / nrm if viol.any() else 0.0
        if bad > worst:
            worst, where = float(bad), i
    return worst <= tol, worst, where


def isometry_defect(a, left):
    a = np.asarray(a)
    if left:
        m = a.reshape(-1, a.shape[-1])
        g = m.conj().T @ m
    else:
        m = a.reshape(a.shape[0], -1)
        g = m @ m.conj().T
    return float(np.abs(g - np.eye(g.shape[0])).max())


def canonical_defect(mp, proportional=False):
    """Max deviation from isometry of every non-centre site for the advertised form
    (to_right=False & qnidx=n-1 => sites 0..n-2 left-isometric; to_right=True & qnidx=0 => sites 1.. right-isometric)."""
    arrs = arrays(mp)
    n = len(arrs)
    worst = 0.0
    c = mp.qnidx
    for i, a in enumerate(arrs):
        if i == c:
            continue
        left = i < c
        if proportional:
            m = a.reshape(-1, a.shape[-1]) if left else a.reshape(a.shape[0], -1)
            g = m.conj().T @ m if left else m @ m.conj().T
            s = np.trace(g).real / g.shape[0]
            d = float(np.abs(g / (s + 1e-300) - np.eye(g.shape[0])).max())
        else:
            d = isometry_defect(a, left)
        worst = max(worst, d)
    return worst


def exact_bond_caps(pdims, squared=False):
    n = len(pdims)
    p = [d * d if squared else d for d in pdims]
    caps = [1]
    for b in range(1, n):
        l = int(np.prod(p[:b]))
        r = int(np.prod(p[b:]))
        caps.append(min(l, r))
    caps.append(1)
    return caps


def sector_projector(basis, qntot):
    """Diagonal 0/1 mask over the dense product basis selecting total charge qntot (any number of components)."""
    qntot = np.asarray(qntot).reshape(-1)
    tot = np.zeros((1, len(qntot)), dtype=int)
    for b in basis:
        sig = np.asarray(b.sigmaqn)
        tot = (tot[:, None, :] + sig[None, :, :]).reshape(-1, len(qntot))
    return np.all(tot == qntot, axis=1)


def best_sector(basis):
    """most populated symmetry sector of the product basis, as a qntot argument."""
    qn_size = basis[0].sigmaqn.shape[1]
    tot = np.zeros((1, qn_size), dtype=int)
    for b in basis:
        tot = (tot[:, None, :] + np.asarray(b.sigmaqn)[None, :, :]).reshape(-1, qn_size)
    vals, counts = np.unique(tot, axis=0, return_counts=True)
    best = vals[int(np.argmax(counts))]
    return int(best[0]) if qn_size == 1 else np.array(best)
