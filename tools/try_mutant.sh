#!/bin/sh
# tools/try_mutant.sh <patch.diff> <Cxx> [tier]  : apply to /repo, run the check, undo. Never leaves /repo dirty.
P="$1"; C="$2"; T="${3:-quick}"
cd /repo || exit 2
if [ -n "$(git status --porcelain)" ]; then echo "/repo dirty, refusing"; exit 2; fi
restore() { cd /repo && git reset -q --hard HEAD; }
trap restore EXIT INT TERM HUP
if ! git apply "$P" 2>/tmp/try_mutant.err && ! git apply --3way "$P" 2>>/tmp/try_mutant.err; then echo "patch does not apply"; cat /tmp/try_mutant.err; exit 2; fi
cd /verif && timeout 1500 ./check "$C" --tier "$T" > /tmp/try_mutant.$C.log 2>&1; rc=$?
restore
grep -E "VIOLATION|key=|KNOWN-FINDING|MACHINERY|^\[C" /tmp/try_mutant.$C.log | head -12
echo "exit=$rc"
