#!/bin/sh
# tools/run_tier.sh <tier> [ids...] : run the given checks one after another, one summary line each
T="$1"; shift
IDS="$@"
[ -z "$IDS" ] && IDS="C19 C16 C07 C17 C18 C14 C05 C12 C11 C08 C20 C03 C15 C01 C02 C13 C04 C06 C09 C10"
cd "$(dirname "$0")/.." || exit 2
for c in $IDS; do
  s=$(date +%s)
  ./check $c --tier $T > out_$c.$T.log 2>&1; rc=$?
  echo "$c tier=$T rc=$rc wall=$(( $(date +%s) - s ))s :: $(grep -E '^\[C' out_$c.$T.log | tail -1 | cut -c1-200)"
  grep -E "^VIOLATION|^  key=|MACHINERY" out_$c.$T.log | head -6
done
