"""Tree cases for the tn package: topology (increasing parent vector), grouping of basis sets on nodes, dummy nodes;
independent dense contraction of TTNS / TTNO; bipartition spectra."""
import numpy as np

from . import concretize as cz
from .common import rng_for, reseed_global


def all_parent_vectors(n):
    """every increasing labelled tree on n nodes: parent[i] in 0..i-1 (node 0 is the root)."""
    out = [[]]
    for i in range(1, n):
        out = [p + [j] for p in out for j in range(i)]
    return [[-1] + p for p in out]


def make_case(parents, sets_per_node, fam, variant=0, desc=None, mirror=False):
    """sets_per_node[i] in {0 (dummy), 1, 2, ...}; mirror=True lists the children of every node in reverse order."""
    return {"parents": list(parents), "sets": list(sets_per_node), "fam": fam, "variant": variant, "mirror": bool(mirror),
            "desc": desc or f"par={list(parents)} sets={list(sets_per_node)} fam={fam}/{variant}{' mirrored' if mirror else ''}"}


def random_tree_case(seed, k, rep):
    rng = rng_for(seed, "tree-case", k, rep)
    n = int(rng.integers(2, 7))
    parents = [-1] + [int(rng.integers(0, i)) for i in range(1, n)]
    while True:
        sets = [int(rng.choice([0, 1, 1, 1, 2])) for _ in range(n)]
        if sum(sets) >= 2 and sum(sets) <= 6:
            break
    fam = ["elec", "eph", "spin", "qn2"][(k + rep) % 4]
    return make_case(parents, sets, fam, variant=k % 3)


def build(tcase):
    """-> (BasisTree, node list in construction order, ordered list of physical basis sets, alphas per physical set)"""
    from renormalizer.tn import BasisTree
    from renormalizer.tn.node import TreeNodeBasis
    total = sum(tcase["sets"])
    basis, alphas = cz.make_family(tcase["fam"], total, tcase["variant"])
    nodes = []
    cur = 0
    for s in tcase["sets"]:
        if s == 0:
            if basis[0].sigmaqn.shape[1] == 1:
                nodes.append(TreeNodeBasis())
            else:
                from renormalizer.model.basis import BasisDummy
                nodes.append(TreeNodeBasis([BasisDummy(("Virtual DOF", "verif", len(nodes)), 1, [[0] * basis[0].sigmaqn.shape[1]])]))
        else:
            nodes.append(TreeNodeBasis(list(basis[cur:cur + s])))
            cur += s
    idx = list(range(len(nodes)))
    if tcase.get("mirror"):
        idx = idx[::-1]
    for i in idx:
        p = tcase["parents"][i]
        if p >= 0:
            nodes[p].add_child(nodes[i])
    tree = BasisTree(nodes[0])
    return tree, nodes, list(basis), alphas


def sector(tcase, basis):
    """the most populated symmetry sector of the product basis (so that random states are generic), as qntot."""
    qn_size = basis[0].sigmaqn.shape[1]
    tot = np.zeros((1, qn_size), dtype=int)
    for b in basis:
        tot = (tot[:, None, :] + np.asarray(b.sigmaqn)[None, :, :]).reshape(-1, qn_size)
    vals, counts = np.unique(tot, axis=0, return_counts=True)
    best = vals[int(np.argmax(counts))]
    return int(best[0]) if qn_size == 1 else np.array(best)


_CACHE = {}


def built(tcase):
    key = tcase["desc"]
    if key not in _CACHE:
        _CACHE[key] = build(tcase)
    return _CACHE[key]


def random_ttns(tcase, m, keys, qntot=None):
    from renormalizer.tn import TTNS
    tree, nodes, basis, alphas = built(tcase)
    reseed_global(*keys)
    q = sector(tcase, basis) if qntot is None else qntot
    return TTNS.random(tree, q, m)


def _contract(node, tn2bn):
    """-> (array with axes [physical sets of the subtree in pre-order..., parent bond], list of basis sets in that axis order)"""
    t = np.asarray(node.tensor)
    nch = len(node.children)
    sets = list(tn2bn[node].basis_sets)
    # axes of t: children bonds (nch), physical (len(sets)), parent (1)
    cur = t
    order = []
    # contract children one by one, always against axis 0 (the first remaining child bond)
    child_parts = []
    for ch in node.children:
        arr, sub = _contract(ch, tn2bn)
        child_parts.append((arr, sub))
    # move physical+parent axes aside: build result as [own physical..., child1 phys..., child2 phys..., parent]
    res = cur
    for arr, sub in child_parts:
        # res axes: [remaining child bonds..., (own phys, parent), accumulated child phys...]
        res = np.tensordot(res, arr, axes=([0], [arr.ndim - 1]))
        order_add = sub
        order = order + order_add
    # now res axes: [own phys (len sets), parent, child1 phys..., child2 phys...]
    nphys = len(sets)
    nother = res.ndim - nphys - 1
    perm = list(range(nphys)) + list(range(nphys + 1, res.ndim)) + [nphys]
    res = res.transpose(perm)
    return res, sets + order


def dense(t, tcase=None, order=None):
    """coeff * dense vector with axes in `order` (default: all non-dummy basis sets in node order), contracted here."""
    arr, sets = _contract(t.root, t.tn2bn)
    assert arr.shape[-1] == 1
    arr = arr[..., 0]
    if order is None:
        order = [b for b in t.basis.basis_list if b.__class__.__name__ != "BasisDummy"]
    keep = [i for i, b in enumerate(sets) if b.__class__.__name__ != "BasisDummy"]
    # squeeze dummy axes
    arr = arr.reshape([arr.shape[i] for i in keep])
    sets = [sets[i] for i in keep]
    perm = [sets.index(b) for b in order]
    return np.asarray(arr.transpose(perm)) * t.coeff


def dense_operator(ttno, order=None):
    """dense matrix of a TTNO contracted here.  Node tensors have axes [children bonds..., (up_0, down_0, up_1, down_1, ...), parent bond]
    (symbolic_mo_to_numeric_mo_general)."""
    def rec(node):
        t = np.asarray(node.tensor)
        sets = list(ttno.tn2bn[node].basis_sets)
        res = t
        sub_order = []
        for ch in node.children:
            arr, sub = rec(ch)
            res = np.tensordot(res, arr, axes=([0], [arr.ndim - 1]))
            sub_order += sub
        ns = len(sets)
        # res axes: [own pairs (2 ns), parent, child pairs...] -> [own pairs, child pairs..., parent]
        perm = list(range(2 * ns)) + list(range(2 * ns + 1, res.ndim)) + [2 * ns]
        res = res.transpose(perm)
        return res, sets + sub_order
    arr, sets = rec(ttno.root)
    arr = arr[..., 0]
    if order is None:
        order = [b for b in ttno.basis.basis_list if b.__class__.__name__ != "BasisDummy"]
    ups = [2 * sets.index(b) for b in order]
    downs = [2 * sets.index(b) + 1 for b in order]
    dummy_axes = [a for i, b in enumerate(sets) if b not in order for a in (2 * i, 2 * i + 1)]
    arr = arr.transpose(ups + downs + dummy_axes)
    d = int(np.prod([b.nbas for b in order]))
    return arr.reshape(d, d)


def bond_dims(t):
    """node index -> dimension of the bond to its parent (non-root nodes)."""
    return {t.node_idx[n]: int(np.asarray(n.tensor).shape[-1]) for n in t.node_list if n.parent is not None}


def subtree_sets(t, node):
    out = [b for b in t.tn2bn[node].basis_sets if b.__class__.__name__ != "BasisDummy"]
    for ch in node.children:
        out += subtree_sets(t, ch)
    return out


def tails(ref, tcase, t, bd):
    """discarded weight of the ORIGINAL dense state (axes in default order) across every tree edge at the output rank."""
    order = [b for b in t.basis.basis_list if b.__class__.__name__ != "BasisDummy"]
    out = []
    for n in t.node_list:
        if n.parent is None:
            continue
        sub = subtree_sets(t, n)
        if not sub or len(sub) == len(order):
            continue
        ia = [order.index(b) for b in sub]
        ib = [i for i in range(len(order)) if i not in ia]
        m = ref.transpose(ia + ib).reshape(int(np.prod([ref.shape[i] for i in ia])), -1)
        sv = np.linalg.svd(m, compute_uv=False)
        out.append(float(np.sum(sv[bd[t.node_idx[n]]:] ** 2)))
    return out


def dense_terms(terms, order_basis, order_alphas, offset=0.0):
    return cz.dense_terms(terms, order_basis, order_alphas, offset)


def mirror_ttns(t_a, tcase_a, tcase_b):
    """The same state on the tree whose nodes list their children in reverse order: child axes transposed accordingly.
    Nodes of the two trees are matched through their construction index."""
    from renormalizer.tn import TTNS
    tree_a, nodes_a, _, _ = built(tcase_a)
    tree_b, nodes_b, _, _ = built(tcase_b)
    new = TTNS(tree_b)
    tn_a = {nodes_a.index(t_a.tn2bn[n]): n for n in t_a.node_list}
    for nb in new.node_list:
        k = nodes_b.index(new.tn2bn[nb])
        na = tn_a[k]
        ch_a = [nodes_a.index(c) for c in nodes_a[k].children]
        ch_b = [nodes_b.index(c) for c in nodes_b[k].children]
        ta = np.asarray(na.tensor)
        perm = [ch_a.index(c) for c in ch_b] + list(range(len(ch_a), ta.ndim))
        nb.tensor = np.transpose(ta, perm).copy()
        nb.qn = np.array(na.qn).copy()
    new.coeff = t_a.coeff
    return new
