"""Crash / restart injection into the real TdMpsJob.dump_dict along TLC-enumerated scenarios (DumpProtocol).

The file-system calls that renormalizer.utils.tdmps makes (os.path.exists, os.remove, os.rename, os.replace,
np.savez) are routed through counting proxies installed on the *module attributes* `os` and `np` of
renormalizer.utils.tdmps.  A scenario says, for every incarnation of the job, in which dump (`step`) and after how
many completed FS calls (`calls`) the process dies, and whether it dies inside the write (`inwrite`: the target
holds a truncated archive).  Death is a BaseException raised from the proxy, so `finally:` / `except Exception`
blocks in the code under test run exactly as they would when the interpreter unwinds on SIGTERM/KeyboardInterrupt.
"""
import io
import os
import shutil
import tempfile
import types
import zipfile

import numpy as np


class ProcessDies(BaseException):
    pass


class _Proxy:
    def __init__(self, real, overrides):
        self.__dict__["_real"] = real
        self.__dict__["_ov"] = overrides

    def __getattr__(self, name):
        if name in self._ov:
            return self._ov[name]
        return getattr(self._real, name)


class FsInjector:
    """Counts FS calls per dump; kills at the scripted point; records the call trace."""

    def __init__(self, job_name):
        self.job_name = job_name
        self.calls = 0
        self.die_at = None       # (calls, inwrite) for the current dump, or None
        self.io_fail = False     # the write of the current dump fails with IOError after creating a truncated target
        self.trace = []

    def classify(self, path):
        base = os.path.basename(path)
        if base == self.job_name + ".npz":
            return "file"
        if base == self.job_name + ".npz.bak":
            return "bak"
        return "tmp"

    def _tick(self, name, **kw):
        if self.die_at is not None and not self.die_at[1] and self.calls == self.die_at[0]:
            self.trace.append({"ev": "crash"})
            raise ProcessDies(f"before FS call #{self.calls + 1} ({name})")

    def install(self, tdmps):
        inj = self
        real_os, real_np = os, np

        def exists(path):
            inj._tick("exists")
            r = real_os.path.exists(path)
            inj.calls += 1
            inj.trace.append({"ev": "exists", "target": inj.classify(path), "res": bool(r)})
            return r

        def remove(path):
            inj._tick("remove")
            real_os.remove(path)
            inj.calls += 1
            inj.trace.append({"ev": "remove", "target": inj.classify(path)})

        def rename(src, dst):
            inj._tick("rename")
            real_os.rename(src, dst)
            inj.calls += 1
            inj.trace.append({"ev": "rename", "src": inj.classify(src), "dst": inj.classify(dst)})

        def replace(src, dst):
            inj._tick("replace")
            real_os.replace(src, dst)
            inj.calls += 1
            inj.trace.append({"ev": "replace", "src": inj.classify(src), "dst": inj.classify(dst)})

        def savez(path, *a, **kw):
            inj._tick("savez")
            p = path if str(path).endswith(".npz") else str(path) + ".npz"
            buf = io.BytesIO()
            real_np.savez(buf, *a, **kw)
            data = buf.getvalue()
            inj.trace.append({"ev": "write_begin", "target": inj.classify(p)})
            dies_here = inj.die_at is not None and inj.die_at[1] and inj.calls == inj.die_at[0]
            if dies_here or inj.io_fail:
                with open(p, "wb") as fh:
                    fh.write(data[: len(data) // 2])
                if dies_here:
                    inj.trace.append({"ev": "crash"})
                    raise ProcessDies("inside np.savez")
                inj.trace.append({"ev": "write_fail"})
                raise IOError("No space left on device (injected)")
            with open(p, "wb") as fh:
                fh.write(data)
            inj.calls += 1
            inj.trace.append({"ev": "write_end", "target": inj.classify(p)})

        path_proxy = _Proxy(real_os.path, {"exists": exists})
        self._saved = (tdmps.os, tdmps.np)
        tdmps.os = _Proxy(real_os, {"path": path_proxy, "remove": remove, "rename": rename, "replace": replace,
                                    "unlink": remove})
        tdmps.np = _Proxy(real_np, {"savez": savez})
        self._tdmps = tdmps

    def uninstall(self):
        self._tdmps.os, self._tdmps.np = self._saved


def read_dir(d, job_name):
    """-> {"file": (kind, step, inc), "bak": ..., "tmp": ...} decided by actually loading the archives."""
    out = {"file": ("none", 0, 0), "bak": ("none", 0, 0), "tmp": ("none", 0, 0)}
    for name in sorted(os.listdir(d)):
        p = os.path.join(d, name)
        if name == job_name + ".npz":
            slot = "file"
        elif name == job_name + ".npz.bak":
            slot = "bak"
        else:
            slot = "tmp"
        try:
            with np.load(p) as z:
                step = int(z["step"])
                inc = int(z["inc"])
                payload = z["payload"]
                assert payload.shape == (4000,) and float(payload[-1]) == float(step)
            out[slot] = ("complete", step, inc)
        except Exception:
            out[slot] = ("partial", -1, -1)
    return out


def make_job_class():
    from renormalizer.utils.tdmps import TdMpsJob

    class Job(TdMpsJob):
        def __init__(self, inc, inj, plan, **kw):
            self.inc = inc
            self.inj = inj
            self.plan = plan      # dict: die=(step, calls, inwrite) or None ; iofail=set(steps)
            super().__init__(**kw)

        def init_mps(self):
            return object()

        def process_mps(self, mps):
            pass

        def evolve_single_step(self, dt):
            return object()

        def get_dump_dict(self):
            step = len(self.evolve_times) - 1
            # arm the injector for this dump
            self.inj.calls = 0
            self.inj.trace.append({"ev": "dump", "step": step})
            die = self.plan.get("die")
            self.inj.die_at = (die[1], die[2]) if (die is not None and die[0] == step) else None
            self.inj.io_fail = step in self.plan.get("iofail", ())
            payload = np.full(4000, float(step))
            return {"step": step, "inc": self.inc, "payload": payload}
    return Job


def run_scenario(sc, max_step, keep_trace=True):
    """sc: TLC-emitted state (hist, step, calls, inwrite, iofail, file, bak, tmp). Returns (observed dir, traces)."""
    import renormalizer.utils.tdmps as tdmps
    from renormalizer.utils.configs import EvolveConfig
    Job = make_job_class()
    d = tempfile.mkdtemp(prefix="verif-dump-")
    job_name = "job"
    traces = []
    try:
        incs = list(sc["hist"]) + [{"step": sc["step"], "calls": sc["calls"], "inwrite": sc["inwrite"], "iofail": sc["iofail"]}]
        for inc, h in enumerate(incs):
            inj = FsInjector(job_name)
            inj.install(tdmps)
            try:
                plan = {"die": (h["step"], h["calls"], bool(h["inwrite"])), "iofail": set(h.get("iofail", []))}
                job = Job(inc, inj, plan, evolve_config=EvolveConfig(), dump_dir=d, job_name=job_name)
                died = False
                try:
                    job.evolve(evolve_dt=0.1, nsteps=max_step)
                except ProcessDies:
                    died = True
                if not died:
                    return {"error": f"incarnation {inc} did not reach its scripted death point {h}", "trace": inj.trace}, traces
            finally:
                inj.uninstall()
                traces.append(inj.trace)
        return read_dir(d, job_name), traces
    finally:
        shutil.rmtree(d, ignore_errors=True)
