------------------------------- MODULE Adaptive -------------------------------
(* The three step-size controllers of mps/mps.py in integer time quanta:
   "tdvp"  adaptive_tdvp (46-115)           step doubling, state advanced only on accept
   "taylor" _evolve_prop_and_compress (821-879)  accept => recurse on the remaining time
   "rk"    _evolve_prop_and_compress_tdrk (751-788)  embedded pair
   stateT is a ghost: the physical time the current state object corresponds to.           *)
EXTENDS Integers, TLC
CONSTANTS Target, MaxGuess, Kind, PinnedRK     \* PinnedRK = TRUE mirrors the pinned code of the "rk" loop
VARIABLES evolved, stateT, guess, pc, trials
vars == <<evolved, stateT, guess, pc, trials>>
Min(a, b) == IF a < b THEN a ELSE b
Max(a, b) == IF a > b THEN a ELSE b
Dt == Min(guess, Target - evolved)                   \* min_abs(guess_dt, target - evolved)

Init == /\ evolved = 0 /\ stateT = 0 /\ guess \in 1..MaxGuess /\ pc = "loop" /\ trials = 0

\* p < p_restart: the controller shrinks the guess by at least 1/2 (p < 0.5, floor p_min); a one-quantum step is always accepted
Reject == /\ pc = "loop" /\ Dt > 1
          /\ \E g \in 1..(Dt \div 2) : guess' = g
          /\ stateT' = IF Kind = "rk" /\ PinnedRK THEN stateT + Dt ELSE stateT   \* new_mps already overwritten
          /\ trials' = trials + 1 /\ UNCHANGED <<evolved, pc>>
AcceptLast == /\ pc = "loop" /\ evolved + Dt = Target
              /\ stateT' = stateT + Dt /\ evolved' = Target /\ pc' = "done"
              /\ trials' = trials + 1 /\ UNCHANGED guess
AcceptMore == /\ pc = "loop" /\ evolved + Dt < Target
              /\ stateT' = stateT + Dt /\ evolved' = evolved + Dt
              /\ \E g \in Max(1, Dt \div 2)..Min(MaxGuess, 2 * Dt) : guess' = g       \* guess *= min(p, p_max), p >= 0.5
              /\ trials' = trials + 1 /\ UNCHANGED pc
Next == Reject \/ AcceptLast \/ AcceptMore
Spec == Init /\ [][Next]_vars /\ WF_vars(Next)

NoOvershoot == evolved <= Target /\ Dt >= 0
TimeAccounting == stateT = evolved                     \* the state returned at "done" is U(Target) psi
Terminates == <>(pc = "done")
=============================================================================
