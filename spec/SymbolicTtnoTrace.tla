-------------------------- MODULE SymbolicTtnoTrace --------------------------
(* code -> spec: judge the symbolic tree operators produced by the REAL construct_symbolic_ttno.

   A case carries   npos   number of basis sets (columns of the term table, in post-order of the tree)
                    terms  list of [word over npos positions, integer coeff]  (0 = identity)
                    nodes  the nodes in post-order; node = [children |-> post-order indices of its children (1-based),
                           pos |-> table positions of its own basis sets,
                           outs |-> list of out operators, each a list of [ [child op idx..., own symbol ids...], factor ]]
                    rootfactor  the factor vector left over after the root step (the code discards it; it must be <<1>>)
   The denotation of out operator j of a node is the bag over FULL-LENGTH words (identity outside the subtree):
       sum_k factor_k * (x)_{children c} den[c][idx_c] (x) own symbols at own positions.
   The root has exactly one out operator and its denotation times rootfactor must be the input terms.            *)
EXTENDS Integers, Sequences, FiniteSets, TLC, Json, IOUtils
Cases == JsonDeserialize(IOEnv.TRACE_FILE)
VARIABLE i
Init == i \in 1..Len(Cases)
Next == FALSE /\ UNCHANGED i

Coef(B, w) == IF \E p \in B : p[1] = w THEN (CHOOSE p \in B : p[1] = w)[2] ELSE 0
Support(B) == {p[1] : p \in B}
Norm(ws, f(_)) == {<<w, f(w)>> : w \in {x \in ws : f(x) # 0}}
BAdd(B1, B2) == LET ws == Support(B1) \cup Support(B2) IN Norm(ws, LAMBDA w : Coef(B1, w) + Coef(B2, w))
BScale(B, k) == IF k = 0 THEN {} ELSE {<<p[1], k * p[2]>> : p \in B}
RECURSIVE BSumSeq(_), BOfList(_)
BSumSeq(s) == IF s = <<>> THEN {} ELSE BAdd(Head(s), BSumSeq(Tail(s)))
BOfList(l) == IF l = <<>> THEN {} ELSE BAdd({<<Head(l)[1], Head(l)[2]>>} \ {<<Head(l)[1], 0>>}, BOfList(Tail(l)))
\* words with disjoint supports multiply position-wise (0 = identity)
WMul(a, b) == [k \in DOMAIN a |-> IF a[k] # 0 THEN a[k] ELSE b[k]]
BMul(A, B) == BSumSeq(LET ps == A \X B
                          s == CHOOSE q \in [1..Cardinality(ps) -> ps] : \A x, y \in 1..Cardinality(ps) : x # y => q[x] # q[y]
                      IN [k \in 1..Cardinality(ps) |-> {<<WMul(s[k][1][1], s[k][2][1]), s[k][1][2] * s[k][2][2]>>}])
IdWord(c) == [k \in 1..c.npos |-> 0]
One(c) == {<<IdWord(c), 1>>}
OwnWord(c, node, syms) == [k \in 1..c.npos |-> IF \E m \in 1..Len(node.pos) : node.pos[m] = k
                                                THEN syms[CHOOSE m \in 1..Len(node.pos) : node.pos[m] = k] ELSE 0]
RECURSIVE DenNode(_, _), ChildProd(_, _, _, _)
\* product over children 1..m of the denotation of the child's out operator selected by the term
ChildProd(c, node, sym, m) == IF m = 0 THEN One(c)
                              ELSE BMul(ChildProd(c, node, sym, m - 1), DenNode(c, node.children[m])[sym[m] + 1])
DenNode(c, n) == LET node == c.nodes[n]
                     nch == Len(node.children)
                     term(t) == LET sym == t[1]
                                    own == [m \in 1..Len(node.pos) |-> sym[(IF nch = 0 THEN 1 ELSE nch) + m]]
                                IN BScale(BMul(ChildProd(c, node, sym, nch), {<<OwnWord(c, node, own), 1>>}), t[2])
                 IN [j \in 1..Len(node.outs) |-> BSumSeq([k \in 1..Len(node.outs[j]) |-> term(node.outs[j][k])])]
TermBag(c) == BOfList([k \in 1..Len(c.terms) |-> <<c.terms[k][1], c.terms[k][2]>>])
WellFormed(c) == \A n \in 1..Len(c.nodes) : \A j \in 1..Len(c.nodes[n].outs) : \A k \in 1..Len(c.nodes[n].outs[j]) :
                    LET node == c.nodes[n]  sym == node.outs[j][k][1] IN
                    /\ Len(sym) = (IF Len(node.children) = 0 THEN 1 ELSE Len(node.children)) + Len(node.pos)
                    /\ \A m \in 1..Len(node.children) : node.children[m] < n /\ sym[m] + 1 \in 1..Len(c.nodes[node.children[m]].outs)
Denotes(c) == LET root == DenNode(c, Len(c.nodes)) IN
                 /\ Len(root) = 1 /\ Len(c.rootfactor) = 1
                 /\ BScale(root[1], c.rootfactor[1]) = TermBag(c)
Verdict == LET c == Cases[i]  wf == WellFormed(c) IN
   PrintT(<<"VERDICT", ToJson([id |-> c.id, wellformed |-> wf, denotes |-> IF wf THEN Denotes(c) ELSE FALSE,
                                rootfactor_is_one |-> (c.rootfactor = <<1>>)])>>)
=============================================================================
