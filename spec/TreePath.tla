------------------------------- MODULE TreePath -------------------------------
(* tn/treebase.py Tree.find_path and the environment selection of tn/tree.py TTNS.calc_2site_rdm, on EVERY increasing
   tree with K nodes and every ordered pair of distinct nodes.
   find_path(n1, n2): ancestors1 = [n1 .. root], ancestors2 = [n2 .. root]; the first element of ancestors1 that also is an
   ancestor of n2 is the common ancestor c; the path is ancestors1[..c] followed by the reverse of ancestors2[..c).
   calc_2site_rdm contracts the tensors on the path with, for every path node, the environments that do not point along the
   path: child environment (n, c) stands for the whole subtree of c, the parent environment of n for everything outside the
   subtree of n.  The contraction is a reduced density matrix only if every node of the tree enters exactly once
   (ExactCover).  Bug = "keep-parent" is the must-fail variant that forgets skip_parent.                                    *)
EXTENDS Integers, Sequences, FiniteSets, TLC, Json
CONSTANTS K, Bug
Nodes == 1..K
VARIABLES par, n1, n2, path, envs, phase
vars == <<par, n1, n2, path, envs, phase>>

Range(s) == {s[i] : i \in 1..Len(s)}
Rev(s) == [i \in 1..Len(s) |-> s[Len(s) + 1 - i]]
Index(s, x) == CHOOSE i \in 1..Len(s) : s[i] = x
RECURSIVE AncSeq(_, _)
AncSeq(p, n) == IF p[n] = 0 THEN <<n>> ELSE <<n>> \o AncSeq(p, p[n])
Sub(n) == {m \in Nodes : n \in Range(AncSeq(par, m))}
ChildSet(n) == {m \in Nodes : par[m] = n}
Adjacent(x, y) == par[x] = y \/ par[y] = x

FindPath(p, x, y) ==
  LET a1 == AncSeq(p, x)
      a2 == AncSeq(p, y)
      common == SelectSeq(a1, LAMBDA z : z \in Range(a2))
      c == common[1]
  IN SubSeq(a1, 1, Index(a1, c)) \o Rev(SubSeq(a2, 1, Index(a2, c) - 1))

Init == /\ par \in {p \in [Nodes -> 0..K] : p[1] = 0 /\ \A n \in Nodes \ {1} : p[n] \in 1..(n - 1)}
        /\ n1 \in Nodes /\ n2 \in Nodes /\ n1 # n2
        /\ path = <<>> /\ envs = {} /\ phase = "args"
Find == phase = "args" /\ path' = FindPath(par, n1, n2) /\ phase' = "path" /\ UNCHANGED <<par, n1, n2, envs>>
\* the loop `for i, node in enumerate(path)` of calc_2site_rdm
Neigh(i) == (IF i > 1 THEN {path[i - 1]} ELSE {}) \cup (IF i < Len(path) THEN {path[i + 1]} ELSE {})
Select == /\ phase = "path"
          /\ envs' = UNION {
                 {<<"child", path[i], c>> : c \in {c \in ChildSet(path[i]) : c \notin Neigh(i)}}
                 \cup (IF par[path[i]] \in Neigh(i) /\ Bug # "keep-parent" THEN {} ELSE {<<"parent", path[i], 0>>})
               : i \in 1..Len(path)}
          /\ phase' = "envs" /\ UNCHANGED <<par, n1, n2, path>>
Next == Find \/ Select
Spec == Init /\ [][Next]_vars

HasPath == phase # "args"
\* a simple path from n1 to n2 along tree edges
IsPath == HasPath => /\ path[1] = n1 /\ path[Len(path)] = n2
                     /\ \A i \in 1..(Len(path) - 1) : Adjacent(path[i], path[i + 1])
                     /\ Cardinality(Range(path)) = Len(path)
Depth(n) == Len(AncSeq(par, n)) - 1
\* it is the shortest one: up to the lowest common ancestor and down again
Shortest == HasPath => \E c \in Range(AncSeq(par, n1)) \cap Range(AncSeq(par, n2)) :
                          /\ \A d \in Range(AncSeq(par, n1)) \cap Range(AncSeq(par, n2)) : Depth(d) <= Depth(c)
                          /\ Len(path) = Depth(n1) + Depth(n2) - 2 * Depth(c) + 1
                          /\ c \in Range(path)
\* multiplicity of node m in the closed contraction
Mult(m) == (IF m \in Range(path) THEN 1 ELSE 0)
           + Cardinality({e \in envs : e[1] = "child" /\ m \in Sub(e[3])})
           + Cardinality({e \in envs : e[1] = "parent" /\ m \notin Sub(e[2])})
ExactCover == phase = "envs" => \A m \in Nodes : Mult(m) = 1

EmitPath == phase = "envs" =>
   PrintT(<<"EMIT", ToJson([par |-> [n \in Nodes |-> par[n] - 1], a |-> n1 - 1, b |-> n2 - 1,
                            path |-> [i \in 1..Len(path) |-> path[i] - 1],
                            envs |-> {<<e[1], e[2] - 1, e[3] - 1>> : e \in envs}])>>)
=============================================================================
