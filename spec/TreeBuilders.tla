----------------------------- MODULE TreeBuilders -----------------------------
(* tn/treebase.py: the tree-shape builders BasisTree.linear / binary / general_mctdh (with and without contracted primitives
   and with a contraction label) / t3ns, approximate_partition, and add_auxiliary_space, transcribed as recursive operators
   that return the tree the Python recursion builds for the basis sets 1..n (0 stands for a dummy basis set).
   A two-step machine picks the arguments (Init), builds the tree (Build) and doubles the space (Aux); TLC evaluates the
   structural claims of the docstrings on every argument combination inside the bounds and emits each flattened tree, which
   the harness compares node by node with the tree the real constructor returns (harness/checks/c02.py).
   NoDummyLeaf is a claim the code does NOT satisfy (general_mctdh with 4 elementary nodes and order 3 creates a childless
   virtual node because approximate_partition returns an empty last group); it is kept as a must-fail configuration so the
   deviation is recorded and a change of behaviour is noticed.                                                              *)
EXTENDS Integers, Sequences, FiniteSets, TLC, Json
CONSTANTS MaxN, MaxK
VARIABLES args, tree, phase
vars == <<args, tree, phase>>

Min(a, b) == IF a < b THEN a ELSE b
MinOf(S) == CHOOSE x \in S : \A y \in S : x <= y
Node(b, ks) == [basis |-> b, kids |-> ks]
Iota(n) == [i \in 1..n |-> i]

\* approximate_partition(sequence, ngroups): ngroups slices of size ceil(len / ngroups); the last ones may be empty
Parts(seq, g) == LET size == (Len(seq) - 1) \div g + 1
                 IN [i \in 1..g |-> SubSeq(seq, (i - 1) * size + 1, Min(i * size, Len(seq)))]

\* ---- BasisTree.linear
RECURSIVE Lin(_, _)
Lin(i, n) == Node(<<i>>, IF i = n THEN <<>> ELSE <<Lin(i + 1, n)>>)

\* ---- BasisTree.binary: binary_recursion(node, offspring)
RECURSIVE Bin(_, _)
Bin(b, off) ==
  Node(<<b>>, IF off = <<>> THEN <<>>
              ELSE IF Len(off) = 1 THEN <<Node(<<off[1]>>, <<>>)>>
              ELSE LET rest == SubSeq(off, 3, Len(off))
                       mid == Len(rest) \div 2
                   IN <<Bin(off[1], SubSeq(rest, 1, mid)), Bin(off[2], SubSeq(rest, mid + 1, Len(rest)))>>)

\* ---- BasisTree.general_mctdh: elementary nodes
RECURSIVE Chunks(_, _)
Chunks(seq, k) == IF k < Len(seq) THEN <<SubSeq(seq, 1, k)>> \o Chunks(SubSeq(seq, k + 1, Len(seq)), k) ELSE <<seq>>
RECURSIVE Labelled(_, _, _, _)
Labelled(n, k, lab, i) ==
  IF i > n THEN <<>>
  ELSE IF lab[i] THEN <<<<i>>>> \o Labelled(n, k, lab, i + 1)
  ELSE LET J == {j \in 1..k : i + j = n + 1 \/ (i + j <= n /\ lab[i + j])}
           j == IF J = {} THEN k ELSE MinOf(J)
       IN <<[x \in 1..j |-> i + x - 1]>> \o Labelled(n, k, lab, i + j)
Elementary(a) == IF ~a.contract THEN Chunks(Iota(a.n), a.k)
                 ELSE IF a.lab = <<>> THEN [i \in 1..a.n |-> <<i>>]
                 ELSE Labelled(a.n, a.k, a.lab, 1)
\* ---- the recursive construction above the elementary nodes
RECURSIVE Mctdh(_, _)
Mctdh(el, k) == Node(<<0>>, IF Len(el) <= k THEN [i \in 1..Len(el) |-> Node(el[i], <<>>)]
                            ELSE [g \in 1..k |-> Mctdh(Parts(el, k)[g], k)])

\* ---- BasisTree.t3ns: recursion(parent, basis_list) returns the children it attaches to `parent`
RECURSIVE T3(_)
T3(bl) == IF bl = <<>> THEN <<>>
          ELSE IF Len(bl) = 1 THEN <<Node(bl, <<>>)>>
          ELSE IF Len(bl) = 2 THEN <<Node(<<bl[1]>>, <<Node(<<bl[2]>>, <<>>)>>)>>
          ELSE LET P == Parts(Tail(bl), 2)
               IN <<Node(<<bl[1]>>, <<Node(<<0>>, T3(P[1]) \o T3(P[2]))>>)>>
T3ns(n) == LET P == Parts(Iota(n), 3) IN Node(<<0>>, T3(P[1]) \o T3(P[2]) \o T3(P[3]))

\* ---- preorder flattening: node i is [par |-> index of the parent (0 for the root), basis |-> its basis sets]
RECURSIVE Flat(_, _, _), FlatKids(_, _, _, _)
Flat(t, p, me) == <<[par |-> p, basis |-> t.basis]>> \o FlatKids(t.kids, 1, me, me + 1)
FlatKids(ks, i, p, nxt) == IF i > Len(ks) THEN <<>>
                           ELSE LET f == Flat(ks[i], p, nxt) IN f \o FlatKids(ks, i + 1, p, nxt + Len(f))

BuildTree(a) == CASE a.b = "linear" -> Lin(1, a.n)
                  [] a.b = "binary" -> Bin(1, SubSeq(Iota(a.n), 2, a.n))
                  [] a.b = "mctdh"  -> Mctdh(Elementary(a), a.k)
                  [] a.b = "t3ns"   -> T3ns(a.n)

Labels(n) == {<<>>} \cup [1..n -> BOOLEAN]
Args == {[b |-> "linear", n |-> n, k |-> 0, contract |-> FALSE, lab |-> <<>>] : n \in 1..MaxN}
   \cup {[b |-> "binary", n |-> n, k |-> 0, contract |-> FALSE, lab |-> <<>>] : n \in 1..MaxN}
   \cup {[b |-> "t3ns", n |-> n, k |-> 0, contract |-> FALSE, lab |-> <<>>] : n \in 1..MaxN}
   \cup {[b |-> "mctdh", n |-> n, k |-> k, contract |-> FALSE, lab |-> <<>>] : n \in 2..MaxN, k \in 2..MaxK}
   \cup UNION {{[b |-> "mctdh", n |-> n, k |-> k, contract |-> TRUE, lab |-> l] : l \in Labels(n)} : n \in 2..MaxN, k \in 2..MaxK}

Init == args \in Args /\ tree = <<>> /\ phase = "args"
Build == phase = "args" /\ tree' = Flat(BuildTree(args), 0, 1) /\ phase' = "built" /\ UNCHANGED args
\* add_auxiliary_space: every physical basis set b is followed by its partner, written -b; connections are copied
Dbl(bs) == LET F[i \in 0..Len(bs)] == IF i = 0 THEN <<>> ELSE F[i - 1] \o (IF bs[i] = 0 THEN <<0>> ELSE <<bs[i], -bs[i]>>) IN F[Len(bs)]
Aux == phase = "built" /\ tree' = [i \in 1..Len(tree) |-> [par |-> tree[i].par, basis |-> Dbl(tree[i].basis)]]
       /\ phase' = "aux" /\ UNCHANGED args
Next == Build \/ Aux
Spec == Init /\ [][Next]_vars

\* ---- structural claims
Idx == 1..Len(tree)
Kids(i) == {j \in Idx : tree[j].par = i}
PhysSeq == LET F[i \in 0..Len(tree)] == IF i = 0 THEN <<>> ELSE F[i - 1] \o SelectSeq(tree[i].basis, LAMBDA b : b # 0) IN F[Len(tree)]
NPhys(i) == Len(SelectSeq(tree[i].basis, LAMBDA b : b # 0))
RECURSIVE Depth(_)
Depth(i) == IF tree[i].par = 0 THEN 0 ELSE 1 + Depth(tree[i].par)
RECURSIVE CeilLog(_, _)
CeilLog(k, e) == IF e <= 1 THEN 0 ELSE 1 + CeilLog(k, (e - 1) \div k + 1)
Built == phase = "built"

\* a rooted tree in preorder
IsPreorder == Built => /\ tree[1].par = 0
                       /\ \A i \in Idx \ {1} : tree[i].par \in 1..(i - 1)
                       \* preorder: the parent of i is the last earlier node that is an ancestor chain member (no crossing)
                       /\ \A i \in Idx \ {1} : \A j \in (tree[i].par + 1)..(i - 1) : tree[j].par >= tree[i].par
\* every basis set exactly once
AllOnce == Built => Len(PhysSeq) = args.n /\ {PhysSeq[i] : i \in 1..Len(PhysSeq)} = 1..args.n
\* the preorder basis list (BasisTree.basis_list, the order of the degrees of freedom in todense / from dense) is the input order
KeepsOrder == (Built /\ args.b # "binary") => PhysSeq = Iota(args.n)
Arity == Built => CASE args.b = "linear" -> \A i \in Idx : Cardinality(Kids(i)) <= 1 /\ NPhys(i) = 1
                    [] args.b = "binary" -> \A i \in Idx : Cardinality(Kids(i)) <= 2 /\ NPhys(i) = 1
                    [] args.b = "mctdh"  -> \A i \in Idx : Cardinality(Kids(i)) <= args.k /\ NPhys(i) <= args.k
                    \* T3NS: every tensor has at most three legs
                    [] args.b = "t3ns"   -> \A i \in Idx : Cardinality(Kids(i)) + (IF tree[i].par = 0 THEN 0 ELSE 1) + NPhys(i) <= 3
\* "all physical degrees of freedom are attached to the leaf nodes"; inner nodes carry exactly one dummy
MctdhLeaves == (Built /\ args.b = "mctdh") => \A i \in Idx : IF NPhys(i) > 0 THEN Kids(i) = {} /\ NPhys(i) = Len(tree[i].basis)
                                                             ELSE tree[i].basis = <<0>>
\* contract_primitive without a label: one basis set per leaf
Contracted == (Built /\ args.b = "mctdh" /\ args.contract /\ args.lab = <<>>) => \A i \in Idx : NPhys(i) <= 1
\* with a label: a basis set labelled TRUE is alone on its leaf
LabelRespected == (Built /\ args.b = "mctdh" /\ args.lab # <<>>) =>
                     \A i \in Idx : \A x \in 1..Len(tree[i].basis) : (tree[i].basis[x] # 0 /\ args.lab[tree[i].basis[x]]) => Len(tree[i].basis) = 1
\* balanced: depth of every node <= max(1, ceil(log_k(#elementary nodes)))
NElem == Cardinality({i \in Idx : NPhys(i) > 0})
MctdhDepth == (Built /\ args.b = "mctdh") => \A i \in Idx : Depth(i) <= (IF CeilLog(args.k, NElem) < 1 THEN 1 ELSE CeilLog(args.k, NElem))
\* NOT satisfied by the code (must-fail configuration): a virtual node always has children
NoDummyLeaf == Built => \A i \in Idx : NPhys(i) = 0 => Kids(i) # {}
\* add_auxiliary_space keeps the shape and pairs every physical set with its partner right after it
AuxPairs == phase = "aux" => \A i \in Idx : \A x \in 1..Len(tree[i].basis) :
                 tree[i].basis[x] > 0 => (x < Len(tree[i].basis) /\ tree[i].basis[x + 1] = -tree[i].basis[x])

EmitTree == (phase = "aux" \/ phase = "built") =>
   PrintT(<<"EMIT", ToJson([builder |-> args.b, n |-> args.n, k |-> args.k, contract |-> args.contract,
                            lab |-> [i \in 1..Len(args.lab) |-> IF args.lab[i] THEN 1 ELSE 0], phase |-> phase,
                            par |-> [i \in Idx |-> tree[i].par - 1], basis |-> [i \in Idx |-> tree[i].basis]])>>)
=============================================================================
