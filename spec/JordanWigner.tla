----------------------------- MODULE JordanWigner -----------------------------
(* model/h_qc.py: generate_ladder_operator (80-90), simplify_op (93-132) against the anticommuting
   fermionic action on occupation-number states. Site index 1 = "beta" = occupied.            *)
EXTENDS Integers, Sequences, FiniteSets, TLC, Json
CONSTANT M                                   \* number of spin orbitals
Orb == 0..(M - 1)
Bits == [Orb -> {0, 1}]
Zero == <<0, [o \in Orb |-> 0]>>             \* sign 0 = the null vector

RECURSIVE Parity(_, _)
Parity(n, p) == IF p = 0 THEN 0 ELSE (n[p - 1] + Parity(n, p - 1)) % 2      \* number of occupied orbitals below p, mod 2
Sgn(k) == IF k % 2 = 0 THEN 1 ELSE -1

\* ---- fermions: st = <<sign, bits>>
Ann(p, st) == IF st[1] = 0 \/ st[2][p] = 0 THEN Zero ELSE <<st[1] * Sgn(Parity(st[2], p)), [st[2] EXCEPT ![p] = 0]>>
Cre(p, st) == IF st[1] = 0 \/ st[2][p] = 1 THEN Zero ELSE <<st[1] * Sgn(Parity(st[2], p)), [st[2] EXCEPT ![p] = 1]>>
\* a string is a sequence of <<"c"|"a", orbital>> written left to right; the rightmost acts first
RECURSIVE FermiApply(_, _)
FermiApply(s, st) == IF s = <<>> THEN st
                     ELSE LET r == FermiApply(Tail(s), st) IN
                          IF Head(s)[1] = "c" THEN Cre(Head(s)[2], r) ELSE Ann(Head(s)[2], r)

\* ---- spins: symbols "Z", "+" (sigma_+ : 1 -> 0), "-" (sigma_- : 0 -> 1) on a site
SpinOne(sym, site, st) ==
  IF st[1] = 0 THEN Zero
  ELSE IF sym = "Z" THEN <<st[1] * (IF st[2][site] = 1 THEN -1 ELSE 1), st[2]>>
  ELSE IF sym = "+" THEN (IF st[2][site] = 1 THEN <<st[1], [st[2] EXCEPT ![site] = 0]>> ELSE Zero)
  ELSE (IF st[2][site] = 0 THEN <<st[1], [st[2] EXCEPT ![site] = 1]>> ELSE Zero)
RECURSIVE SpinApply(_, _)
SpinApply(s, st) == IF s = <<>> THEN st ELSE SpinOne(Head(s)[1], Head(s)[2], SpinApply(Tail(s), st))

\* generate_ladder_operator: a_j = Z_0 .. Z_{j-1} sigma_+[j],  a_j^+ = Z_0 .. Z_{j-1} sigma_-[j]
RECURSIVE ZString(_)
ZString(j) == IF j = 0 THEN <<>> ELSE Append(ZString(j - 1), <<"Z", j - 1>>)
Ladder(f) == Append(ZString(f[2]), <<IF f[1] = "c" THEN "-" ELSE "+", f[2]>>)
RECURSIVE JW(_)
JW(s) == IF s = <<>> THEN <<>> ELSE Ladder(Head(s)) \o JW(Tail(s))            \* Op.product: concatenation

\* simplify_op: per site (ascending), keep intra-site order, move every Z to the front counting the non-Z passed,
\* cancel Z pairs, prepend one Z if the count is odd, drop identities; factor (-1)^n_permute
SiteSyms(s, site) == SelectSeq(s, LAMBDA x : x[2] = site)
RECURSIVE Permutes(_, _)
Permutes(ss, nonz) == IF ss = <<>> THEN 0
                      ELSE IF Head(ss)[1] = "Z" THEN nonz + Permutes(Tail(ss), nonz)
                           ELSE Permutes(Tail(ss), nonz + 1)
NonZ(ss) == SelectSeq(ss, LAMBDA x : x[1] # "Z")
NZ(ss) == Len(SelectSeq(ss, LAMBDA x : x[1] = "Z"))
SimpSite(s, site) == LET ss == SiteSyms(s, site) IN
                     (IF NZ(ss) % 2 = 1 THEN << <<"Z", site>> >> ELSE <<>>) \o NonZ(ss)
RECURSIVE SimpAll(_, _)
SimpAll(s, site) == IF site = M THEN <<>> ELSE SimpSite(s, site) \o SimpAll(s, site + 1)
RECURSIVE TotPermutes(_, _)
TotPermutes(s, site) == IF site = M THEN 0 ELSE Permutes(SiteSyms(s, site), 0) + TotPermutes(s, site + 1)
Simplified(s) == SimpAll(s, 0)
SimpSign(s) == Sgn(TotPermutes(s, 0))

Strings == {<< <<"c", p>>, <<"a", q>> >> : p, q \in Orb}
           \cup {<< <<"c", p>>, <<"c", q>>, <<"a", r>>, <<"a", s>> >> : p, q, r, s \in Orb}

VARIABLES str, bits
Init == str \in Strings /\ bits \in Bits
Next == UNCHANGED <<str, bits>>
Spec == Init /\ [][Next]_<<str, bits>>

Scale(k, st) == <<k * st[1], st[2]>>
Same(a, b) == (a[1] = 0 /\ b[1] = 0) \/ a = b
\* (1) the Jordan-Wigner image acts like the fermionic string, sign included
JWisFermi == Same(SpinApply(JW(str), <<1, bits>>), FermiApply(str, <<1, bits>>))
\* (2) simplification preserves the spin operator
SimplifyOK == Same(Scale(SimpSign(JW(str)), SpinApply(Simplified(JW(str)), <<1, bits>>)), SpinApply(JW(str), <<1, bits>>))
\* (3) after simplification every site carries at most one Z and it stands first
NormalForm == \A site \in Orb : LET ss == SiteSyms(Simplified(JW(str)), site) IN
                 \A i \in 1..Len(ss) : ss[i][1] = "Z" => i = 1

\* ------------------------------------------------------------------ emission (spec -> code): every string with the
\* simplified symbol list per site and the sign the real simplify_op must return
EmitString == (bits = [o \in Orb |-> 0]) =>
   PrintT(<<"EMIT", ToJson([str |-> str, simplified |-> Simplified(JW(str)), sign |-> SimpSign(JW(str))])>>)

\* ------------------------------------------------------------------ exchange of two neighbouring orbitals (OFS with JW correction)
\* symbolic_mpo.table_row_swapped_jw:  a1 -> a1 z2 , a2 -> z1 a2  in the exchanged order.  Local operators on one site are
\* words over {"Z", "+", "-"} in normal form (optional leading Z, then at most the ladder symbols the Hamiltonian produces).
LocalOps == {<<>>, <<"Z">>, <<"+">>, <<"-">>, <<"Z", "+">>, <<"Z", "-">>, <<"-", "+">>, <<"+", "-">>, <<"Z", "-", "+">>}
NLadder(w) == Len(SelectSeq(w, LAMBDA x : x # "Z"))
PrependZ(w) == IF w # <<>> /\ Head(w) = "Z" THEN Tail(w) ELSE <<"Z">> \o w
\* the rule as coded: op1 gets a Z iff op2 has an odd number of ladder symbols and vice versa; sign = (-1)^(odd2 * nladder1)
SwapRule(w1, w2) == [new1 |-> IF NLadder(w2) % 2 = 1 THEN PrependZ(w1) ELSE w1,
                     new2 |-> IF NLadder(w1) % 2 = 1 THEN PrependZ(w2) ELSE w2,
                     sign |-> Sgn((NLadder(w2) % 2) * NLadder(w1))]
\* two-site check on occupation states <<sign, <<n1, n2>>>> of sites (0, 1)
RECURSIVE ApplyLocal(_, _, _)
ApplyLocal(w, site, st) == IF w = <<>> THEN st ELSE SpinOne(Head(w), site, ApplyLocal(Tail(w), site, st))
\* fermionic exchange F |n0 n1> = (-1)^(n0 n1) |n1 n0>
FSwap(st) == IF st[1] = 0 THEN st ELSE <<st[1] * Sgn(st[2][0] * st[2][1]), [o \in Orb |-> IF o = 0 THEN st[2][1] ELSE IF o = 1 THEN st[2][0] ELSE st[2][o]]>>
\* F (w1 on site 0, w2 on site 1) = sign * (new2 on site 0, new1 on site 1) F        on every basis state
SwapRuleOK == \A w1 \in LocalOps, w2 \in LocalOps : \A n0 \in {0, 1}, n1 \in {0, 1} :
    LET st == <<1, [o \in Orb |-> IF o = 0 THEN n0 ELSE IF o = 1 THEN n1 ELSE 0]>>
        r == SwapRule(w1, w2)
        lhs == FSwap(ApplyLocal(w1, 0, ApplyLocal(w2, 1, st)))
        rhs == Scale(r.sign, ApplyLocal(r.new2, 0, ApplyLocal(r.new1, 1, FSwap(st))))
    IN Same(lhs, rhs)
EmitSwapRules == PrintT(<<"EMIT", ToJson([rules |-> {[w1 |-> w1, w2 |-> w2, new1 |-> SwapRule(w1, w2).new1, new2 |-> SwapRule(w1, w2).new2,
                                                      sign |-> SwapRule(w1, w2).sign] : w1 \in LocalOps, w2 \in LocalOps}])>>)
=============================================================================
