---------------------------- MODULE DumpProtocol ----------------------------
(* TdMpsJob.dump_dict (renormalizer/utils/tdmps.py) as a crash / restart machine.

   One action per file-system call of the dump, in program order; np.savez is two actions
   (WriteBegin: the target exists but is truncated; WriteEnd: it is complete) because the write
   is not atomic.  Crash may happen between any two actions; a new job is then started into the
   directory left behind (Restart is part of Crash: the step counter starts again from 0).

   Protocol = "rotate" mirrors the pinned code:
        if exists(file): if exists(bak): remove(bak) ; rename(file -> bak)
        savez(file) ; if exists(bak): remove(bak)
   Protocol = "replace" mirrors the repaired code:
        savez(tmp) ; os.replace(tmp -> file) ; if exists(bak): remove(bak)

   File content:  <<"none",0>> | <<"partial",k>> | <<"complete",k>>   k = step whose results it holds.
   `inc` numbers the incarnation that wrote a file (a restarted job restarts its step count).  *)
EXTENDS Integers, Sequences, FiniteSets, TLC, Json
CONSTANTS MaxStep, MaxRestart, MaxIoFail, Protocol

VARIABLES file, bak, tmp,      \* directory
          pc, step, calls,     \* program counter, dump number in this incarnation, FS calls completed in this dump
          restarts, dumped,    \* dumped = TRUE once some dump has completed in any incarnation
          iofail,              \* steps of the current incarnation whose write failed with IOError (swallowed by evolve())
          hist                 \* crash history: [step, calls, inwrite, iofail] of every earlier incarnation
vars == <<file, bak, tmp, pc, step, calls, restarts, dumped, iofail, hist>>

SetToSeq(S) == LET n == Cardinality(S) IN
               CHOOSE q \in [1..n -> S] : \A i, j \in 1..n : i < j => q[i] < q[j]
None == <<"none", 0, 0>>
Complete(k) == <<"complete", k, restarts>>
Partial(k) == <<"partial", k, restarts>>
IsComplete(x) == x[1] = "complete"

Init == /\ file = None /\ bak = None /\ tmp = None /\ pc = "compute" /\ step = 0 /\ calls = 0
        /\ restarts = 0 /\ dumped = FALSE /\ iofail = {} /\ hist = <<>>

Compute == /\ pc = "compute" /\ step < MaxStep /\ step' = step + 1 /\ calls' = 0
           /\ pc' = IF Protocol = "rotate" THEN "exists_file" ELSE "write"
           /\ UNCHANGED <<file, bak, tmp, restarts, dumped, iofail, hist>>
\* ---- rotate protocol only
ExistsFile == /\ pc = "exists_file" /\ calls' = calls + 1
              /\ pc' = IF file # None THEN "exists_bak" ELSE "write"
              /\ UNCHANGED <<file, bak, tmp, step, restarts, dumped, iofail, hist>>
ExistsBak == /\ pc = "exists_bak" /\ calls' = calls + 1
             /\ pc' = IF bak # None THEN "remove_bak" ELSE "rename"
             /\ UNCHANGED <<file, bak, tmp, step, restarts, dumped, iofail, hist>>
RemoveBak == /\ pc = "remove_bak" /\ calls' = calls + 1 /\ bak' = None /\ pc' = "rename"
             /\ UNCHANGED <<file, tmp, step, restarts, dumped, iofail, hist>>
Rename == /\ pc = "rename" /\ calls' = calls + 1 /\ bak' = file /\ file' = None /\ pc' = "write"
          /\ UNCHANGED <<tmp, step, restarts, dumped, iofail, hist>>
\* ---- np.savez: not atomic
WriteBegin == /\ pc = "write"
              /\ IF Protocol = "replace" THEN tmp' = Partial(step) /\ UNCHANGED file
                                         ELSE file' = Partial(step) /\ UNCHANGED tmp
              /\ pc' = "writing" /\ UNCHANGED <<bak, step, calls, restarts, dumped, iofail, hist>>
WriteEnd == /\ pc = "writing" /\ calls' = calls + 1
            /\ IF Protocol = "replace" THEN tmp' = Complete(step) /\ UNCHANGED <<file, dumped>> /\ pc' = "replace"
                                       ELSE file' = Complete(step) /\ UNCHANGED tmp /\ dumped' = TRUE /\ pc' = "exists_bak2"
            /\ UNCHANGED <<bak, step, restarts, iofail, hist>>
\* the write fails with IOError after the target was created (disk full, quota): TdMpsJob.evolve logs it and goes on
WriteFail == /\ pc = "writing" /\ Cardinality(iofail) < MaxIoFail
             /\ iofail' = iofail \cup {step} /\ pc' = "compute"
             /\ UNCHANGED <<file, bak, tmp, step, calls, restarts, dumped, hist>>
\* ---- replace protocol only: os.replace is atomic
Replace == /\ pc = "replace" /\ calls' = calls + 1 /\ file' = tmp /\ tmp' = None /\ dumped' = TRUE /\ pc' = "exists_bak2"
           /\ UNCHANGED <<bak, step, restarts, iofail, hist>>
ExistsBak2 == /\ pc = "exists_bak2" /\ calls' = calls + 1
              /\ pc' = IF bak # None THEN "cleanup" ELSE "compute"
              /\ UNCHANGED <<file, bak, tmp, step, restarts, dumped, iofail, hist>>
Cleanup == /\ pc = "cleanup" /\ calls' = calls + 1 /\ bak' = None /\ pc' = "compute"
           /\ UNCHANGED <<file, tmp, step, restarts, dumped, iofail, hist>>

\* the process dies at any instant inside a dump; a new job is started into the same directory from step 0
Crash == /\ restarts < MaxRestart /\ pc # "compute"
         /\ hist' = Append(hist, [step |-> step, calls |-> calls, inwrite |-> (pc = "writing"), iofail |-> SetToSeq(iofail)])
         /\ restarts' = restarts + 1 /\ pc' = "compute" /\ step' = 0 /\ calls' = 0 /\ iofail' = {}
         /\ UNCHANGED <<file, bak, tmp, dumped>>

Next == Compute \/ ExistsFile \/ ExistsBak \/ RemoveBak \/ Rename \/ WriteBegin \/ WriteEnd \/ WriteFail \/ Replace
        \/ ExistsBak2 \/ Cleanup \/ Crash
Spec == Init /\ [][Next]_vars

\* once any dump has completed, some complete loadable result file always remains in the directory
Recoverable == dumped => (IsComplete(file) \/ IsComplete(bak))
\* within the incarnation that wrote it, it is the file of the current or the previous step
Fresh == iofail = {} => \A x \in {file, bak} : (IsComplete(x) /\ x[3] = restarts /\ pc # "compute") => x[2] \in {step, step - 1}
\* and the newest complete file never goes backwards inside one incarnation
NoStaleOverNew == (IsComplete(file) /\ IsComplete(bak) /\ file[3] = bak[3]) => file[2] >= bak[2]

\* ------------------------------------------------------------------ emission (spec -> code)
\* every reachable state = one crash scenario: the earlier incarnations died at hist[i]; the current one is
\* observed (= dies) at <<step, calls, pc = "writing">>.  The harness replays it on a real directory and must
\* find exactly this directory.
Show(x) == [kind |-> x[1], step |-> x[2], inc |-> x[3]]
EmitState == pc # "compute" =>
   PrintT(<<"EMIT", ToJson([hist |-> hist, step |-> step, calls |-> calls, inwrite |-> (pc = "writing"), iofail |-> SetToSeq(iofail),
                             file |-> Show(file), bak |-> Show(bak), tmp |-> Show(tmp),
                             recoverable |-> Recoverable, dumped |-> dumped])>>)
=============================================================================
