"""C08 — ground- and excited-state searches are variational and consistent.

Sweep.tla (chain) and TreeOpt.tla (tree) model the sweep controllers with version-stamped environments: TLC checks that no
local eigenproblem consumes a stale environment, that every window is optimised in every sweep, that the returned copy is
taken in the last executed sweep, and emits the call schedule of every (size, method, start direction, number of sweeps) /
every tree.  The real optimisers are run with their environment reads and state updates recorded and must follow the emitted
schedule; EVERY energy the optimiser computes (each window of each sweep, each root) is compared with exact diagonalisation
in the sector (upper bound), the returned states are checked (norm, sector, Rayleigh quotient), equality with exact
diagonalisation is required at full bond, and omega targeting is compared with the spectrum of (H - omega)^2.
"""
import json

import numpy as np

from .. import tlc
from ..common import pmap, MachineryError, bootstrap, rng_for, reseed_global

LEVEL = "model_checking"
TOL = 1e-8


class ChainRecorder:
    def __init__(self, mps):
        self.mps, self.events, self.micro = mps, [], []

    def __enter__(self):
        from renormalizer.mps import gs
        from renormalizer.mps.lib import Environ
        from renormalizer.mps.mp import MatrixProduct
        self.gs, self.Environ, self.MP = gs, Environ, MatrixProduct
        self.o_get, self.o_upd, self.o_sw = Environ.GetLR, MatrixProduct._update_mps, gs.single_sweep
        rec = self

        # recorders never interfere: arguments are passed through untouched, and anything they cannot interpret is recorded as
        # "unobserved" (which can only lead to SPEC-DRIFT, never to a violation)
        def get(self_, *a, **k):
            try:
                if (a[2] if len(a) > 2 else k.get("mps")) is rec.mps:
                    rec.events.append([a[0], int(a[1]), k.get("method", a[5] if len(a) > 5 else "Scratch")])
            except Exception:
                rec.events.append(["unobserved"])
            return rec.o_get(self_, *a, **k)

        def upd(self_, *a, **k):
            try:
                if self_ is rec.mps:
                    cidx = a[1] if len(a) > 1 else k["cidx"]
                    rec.events.append(["upd", int(cidx[0]), int(cidx[-1])])
            except Exception:
                rec.events.append(["unobserved"])
            return rec.o_upd(self_, *a, **k)

        def sw(*a, **k):
            r = rec.o_sw(*a, **k)
            try:
                rec.micro.append([(e, list(c)) for e, c in r[0]])
            except Exception:
                rec.micro_unobserved = True
            return r
        Environ.GetLR, MatrixProduct._update_mps, gs.single_sweep = get, upd, sw
        return self

    def __exit__(self, *a):
        self.Environ.GetLR, self.MP._update_mps, self.gs.single_sweep = self.o_get, self.o_upd, self.o_sw


def _big_system(seed, cplx_h=False):
    """a vibrational chain whose local problems exceed 1000 coefficients so that the iterative eigensolver is used."""
    from renormalizer.model import Model, Op
    from renormalizer.model import basis as ba
    from renormalizer.mps import Mpo
    rng = rng_for(seed, "c08-big")
    dims = [3, 6, 6, 6, 3]
    basis = [ba.BasisSHO(f"v{i}", float(rng.uniform(0.6, 1.4)), d) for i, d in enumerate(dims)]
    terms, dense = [], np.zeros((int(np.prod(dims)),) * 2)

    def kron(mats):
        out = np.eye(1)
        for m in mats:
            out = np.kron(out, m)
        return out
    eye = [np.eye(d) for d in dims]
    for i, b in enumerate(basis):
        c = float(rng.uniform(0.5, 1.5))
        terms.append(Op(r"b^\dagger b", b.dof, c))
        mats = list(eye)
        mats[i] = b.op_mat(Op(r"b^\dagger b", b.dof))
        dense += c * kron(mats)
    for i in range(len(basis) - 1):
        c = float(rng.uniform(-0.6, 0.6))
        terms.append(Op("x x", [basis[i].dof, basis[i + 1].dof], c))
        mats = list(eye)
        mats[i] = basis[i].op_mat(Op("x", basis[i].dof))
        mats[i + 1] = basis[i + 1].op_mat(Op("x", basis[i + 1].dof))
        dense += c * kron(mats)
    if cplx_h:
        # complex Hermitian hopping  c b+_i b_{i+1} + conj(c) b_i b+_{i+1}
        dense = dense.astype(complex)
        for i in range(len(basis) - 1):
            c = complex(rng.uniform(-0.4, 0.4), rng.uniform(0.2, 0.5))
            terms.append(Op(r"b^\dagger b", [basis[i].dof, basis[i + 1].dof], c))
            terms.append(Op(r"b b^\dagger", [basis[i].dof, basis[i + 1].dof], c.conjugate()))
            up_i, dn_i = basis[i].op_mat(Op(r"b^\dagger", basis[i].dof)), basis[i].op_mat(Op("b", basis[i].dof))
            up_j, dn_j = basis[i + 1].op_mat(Op(r"b^\dagger", basis[i + 1].dof)), basis[i + 1].op_mat(Op("b", basis[i + 1].dof))
            for ma, mb, f in ((up_i, dn_j, c), (dn_i, up_j, c.conjugate())):
                mats = list(eye)
                mats[i], mats[i + 1] = ma, mb
                dense = dense + f * kron(mats)
        if np.linalg.norm(dense - dense.conj().T) > 1e-10:
            raise MachineryError("the complex test Hamiltonian is not Hermitian")
    model = Model(basis, terms)
    return model, Mpo(model), dense, dims


def _exact(H, mask, omega=None):
    Hs = H[np.ix_(mask, mask)]
    if omega is not None:
        A = Hs - omega * np.eye(Hs.shape[0])
        Hs = A @ A
    return np.linalg.eigvalsh((Hs + Hs.conj().T) / 2), Hs


def _initial_state(sys_, q, M, prov, keys):
    """initial guesses as users produce them: fresh random, canonicalised, a sum, operator times state, moved centre."""
    from .. import states as st
    m = st.random_mps(sys_.model, q, M, keys + ("a",))
    if prov == "fresh":
        return m
    if prov == "cano":
        m.canonicalise()
        return m
    if prov == "sum":
        # gauge flags inherited from a right-canonical state (centre 0, sweeping right) but the tensors are not isometries
        a = m.copy().ensure_right_canonical()
        b = st.random_mps(sys_.model, q, M, keys + ("b",)).ensure_right_canonical()
        return a.add(b.scale(0.5))
    if prov == "applied":
        a = m.copy().ensure_right_canonical()
        return sys_.mpo.apply(a)
    if prov == "moved":
        m.move_qnidx(len(m) // 2)
        return m
    raise ValueError(prov)


def _operator(sys_, prov):
    """(operator handed to the optimiser, its dense matrix)."""
    if prov == "model":
        return sys_.mpo, sys_.H
    if prov == "scaled":
        return sys_.mpo.scale(-0.7), -0.7 * sys_.H
    if prov == "sum":
        return sys_.mpo.add(sys_.vmpo.scale(0.4)), sys_.H + 0.4 * sys_.V
    if prov == "stacked":
        from renormalizer.mps import StackedMpo
        return StackedMpo([sys_.mpo, sys_.vmpo.scale(0.4)]), sys_.H + 0.4 * sys_.V
    raise ValueError(prov)


def _chain_cases(args):
    bootstrap()
    from renormalizer.mps import gs, Mpo
    from renormalizer.utils import OptimizeConfig, CompressConfig, CompressCriteria
    from .. import evolve, states as st
    jobs, seed, schedules = args
    out = {"cases": [], "viol": [], "traces": 0, "stats": {"micro": 0, "min_gap": 1.0}}
    systems = {}
    for job in jobs:
        (ji, fam, N, variant, method, algo, nroots, proc, oprov, sprov, use_omega) = job
        detail = dict(zip(("job", "fam", "N", "variant", "method", "algo", "nroots", "procedure", "operator", "state", "omega"), job))
        out["cases"].append(json.dumps(detail))

        def V(key, what):
            out["viol"].append((key, what, detail))
        try:
            if (fam, N, variant) not in systems:
                systems[(fam, N, variant)] = evolve.System(fam, N, seed, variant)
            sys_ = systems[(fam, N, variant)]
            op, Hd = _operator(sys_, oprov)
            # every sector that is large enough for the requested number of roots
            sectors = sorted({tuple(np.atleast_1d(q)) for q in _sectors(sys_.basis)})
            q = sectors[(ji // 3) % len(sectors)]
            q = int(q[0]) if len(q) == 1 else np.array(q)
            mask = st.sector_projector(sys_.basis, q)
            if mask.sum() < max(2, 4 * nroots):
                q = sys_.qntot
                mask = sys_.mask
            # several roots need room: at least 4 sector states per root and no two-state bonds (documented scope of the case generator)
            if proc in ("m2", "m2p"):
                nroots = 1
            nroots = int(max(1, min(nroots, mask.sum() // 4)))
            detail["nroots_used"] = nroots
            omega = None
            ev_plain, _ = _exact(Hd, mask)
            if use_omega:
                # a shift inside the spectrum, away from the eigenvalues
                k = min(len(ev_plain) - 1, 1 + ji % 3)
                omega = float(ev_plain[k] - 0.3 * (ev_plain[k] - ev_plain[k - 1]) if k > 0 else ev_plain[0] - 0.1)
            exact, Hs = _exact(Hd, mask, omega)
            full = proc.startswith("full")
            M0 = 64 if full else {"m2": 2, "m3": 3, "thresh": 4, "m2p": 2, "two": 3}[proc]
            try:
                mps = _initial_state(sys_, q, M0, sprov, (seed, "c08", ji))
            except FloatingPointError:
                # Mps.random cannot populate this sector at this bond dimension: not a case
                out["cases"].pop()
                continue
            procedure = {"full4": [[64, 0.2], [64, 0], [64, 0], [64, 0]], "full2": [[64, 0], [64, 0]],
                         "m2": [[2, 0.4], [2, 0.2], [2, 0], [2, 0], [2, 0]], "m3": [[3, 0.3], [3, 0], [3, 0]],
                         "m2p": [[2, 0.5], [3, 0.5], [3, 0.3]], "two": [[3, 0], [3, 0]],
                         "thresh": [[CompressConfig(CompressCriteria.threshold, threshold=1e-3), 0.2],
                                    [CompressConfig(CompressCriteria.threshold, threshold=1e-5), 0],
                                    [CompressConfig(CompressCriteria.threshold, threshold=1e-5), 0]]}[proc]
            mps.optimize_config = OptimizeConfig(procedure=procedure)
            mps.optimize_config.method = method
            mps.optimize_config.algo = algo
            mps.optimize_config.nroots = nroots
            start = "R" if mps.is_left_canonical else "L"
            reseed_global(seed, "c08-run", ji)
            try:
                with ChainRecorder(mps) as rec:
                    energies, res = gs.optimize_mps(mps, op, omega=omega)
            except Exception:
                # more roots requested than some local (sector-restricted) space holds: the optimiser then produces ragged
                # energy lists and fails in its own convergence test.  Outside the scope of the case generator, not a case.
                if nroots > 1 and any(len(np.atleast_1d(e)) < nroots for sw_ in rec.micro for e, _ in sw_):
                    out["cases"].pop()
                    continue
                raise
            if nroots > 1 and any(len(np.atleast_1d(e)) < nroots for sw_ in rec.micro for e, _ in sw_):
                out["cases"].pop()
                continue
            scale = max(1.0, float(np.abs(exact).max()))
            # ---- every energy the optimiser computed is an upper bound of the corresponding exact eigenvalue
            for isw, sweep in enumerate(rec.micro):
                for e, cidx in sweep:
                    es = np.atleast_1d(np.asarray(e, dtype=float))
                    out["stats"]["micro"] += len(es)
                    for k, ek in enumerate(es):
                        gap = (ek - exact[k]) / scale
                        out["stats"]["min_gap"] = min(out["stats"]["min_gap"], float(gap))
                        if gap < -TOL:
                            V(f"C08:bound:chain:{'omega' if use_omega else 'plain'}:sweep{'1' if isw == 0 else 'N'}", f"sweep {isw} window {cidx} root {k}: energy {ek} below the exact value {exact[k]}")
                            break
            for isw, e_rep in enumerate(energies):
                for k, ek in enumerate(np.atleast_1d(np.asarray(e_rep, dtype=float))):
                    if (ek - exact[k]) / scale < -TOL:
                        V(f"C08:bound:chain:reported:{'omega' if use_omega else 'plain'}", f"reported energy of sweep {isw}, root {k}: {ek} below the exact value {exact[k]}")
                        break
            # ---- the reported list is the per-sweep minimum of those
            if rec.micro and not getattr(rec, "micro_unobserved", False) and len(energies) != len(rec.micro):
                V("DRIFT:C08:report:length", f"{len(energies)} reported energies for {len(rec.micro)} sweeps")
            for isw, (e_rep, sweep) in enumerate(zip(energies, rec.micro)):
                best = min(sweep)[0]
                if not np.allclose(np.atleast_1d(e_rep), np.atleast_1d(best), rtol=0, atol=1e-12):
                    V("DRIFT:C08:report:not-the-minimum", f"sweep {isw}: reported {e_rep}, lowest computed {best}")
                if (nroots == 1) != np.isscalar(e_rep) and not (nroots == 1 and np.ndim(e_rep) == 0):
                    V("DRIFT:C08:report:shape", f"nroots={nroots} but the reported entry is {type(e_rep).__name__}")
            # ---- returned states
            states = [res] if nroots == 1 else list(res)
            if len(states) != nroots:
                V("C08:states:count", f"{len(states)} states returned for nroots={nroots}")
            e_ret = []
            for k, s in enumerate(states):
                v = st.dense(s).reshape(-1)
                nv = float(np.linalg.norm(v))
                if abs(nv - 1) > 1e-8:
                    V("C08:states:norm", f"returned state {k} has norm {nv}")
                leak = float(np.linalg.norm(v[~mask])) / (nv + 1e-300)
                if leak > 1e-8:
                    V("C06:gs-sector-leak", f"returned state {k}: {leak:.2e} outside the sector")
                vs = v[mask] / nv
                rq = float(np.real(vs.conj() @ Hs @ vs))
                e_ret.append(rq)
                if rq < exact[0] - TOL * scale:
                    V("C08:states:below-ground", f"returned state {k} has energy {rq} < exact {exact[0]}")
                if omega is None and not hasattr(op, "mpos"):
                    e_lib = float(np.real(s.expectation(op)))
                    if abs(e_lib - rq) > 1e-8 * scale:
                        V("C08:states:expectation", f"Mps.expectation(H) = {e_lib}, dense Rayleigh quotient {rq}")
            # ---- full bond: equality with exact diagonalisation
            if full:
                tol = (1e-9 if algo == "direct" else 1e-6) * scale
                last = np.atleast_1d(np.asarray(energies[-1], dtype=float))
                for k in range(nroots):
                    if abs(last[k] - exact[k]) > tol:
                        V(f"C08:exact:reported:{'omega' if use_omega else 'plain'}", f"full bond: last reported energy of root {k} is {last[k]}, exact {exact[k]}")
                        break
                for k, rq in enumerate(sorted(e_ret)):
                    if abs(rq - exact[k]) > max(tol, 1e-7 * scale):
                        V(f"C08:exact:state:{'omega' if use_omega else 'plain'}", f"full bond: returned state {k} has energy {rq}, exact {exact[k]}")
                        break
            # ---- code -> spec: the recorded environment reads / updates are the schedule TLC emitted
            key = json.dumps([len(mps), method, start, len(rec.micro)])
            if key in schedules and not hasattr(op, "mpos"):
                out["traces"] += 1
                if rec.events != schedules[key]:
                    first = next((i for i, (a, b) in enumerate(zip(rec.events, schedules[key])) if a != b), min(len(rec.events), len(schedules[key])))
                    V(f"DRIFT:C08:schedule:chain:{method}", f"recorded sweep differs from the specified schedule at event {first}: got {rec.events[first:first + 3]}, expected {schedules[key][first:first + 3]}")
        except Exception as e:
            import traceback
            tb = traceback.format_exc(limit=4).splitlines()
            V(f"C08:raises:chain:{type(e).__name__}", f"{type(e).__name__}: {e} | {' | '.join(t.strip() for t in tb[-4:-1])}")
    return out


def _sectors(basis):
    qn_size = basis[0].sigmaqn.shape[1]
    tot = np.zeros((1, qn_size), dtype=int)
    for b in basis:
        tot = (tot[:, None, :] + np.asarray(b.sigmaqn)[None, :, :]).reshape(-1, qn_size)
    vals, counts = np.unique(tot, axis=0, return_counts=True)
    return [tuple(v) for v, c in zip(vals, counts) if c >= 2]


def _big_cases(args):
    """iterative eigensolver (local dimension >= 1000), several roots."""
    bootstrap()
    from renormalizer.mps import gs, Mps
    from renormalizer.utils import OptimizeConfig
    from .. import states as st
    seed, method, nroots, M, cplx = args[:5]
    cplx_h = bool(args[5]) if len(args) > 5 else False
    out = {"cases": [], "viol": [], "traces": 0, "stats": {"micro": 0, "min_gap": 1.0}}
    detail = {"system": "vibrational chain 3-6-6-6-3", "method": method, "nroots": nroots, "M": M, "algo": "davidson", "complex_start": cplx, "complex_hamiltonian": cplx_h}
    out["cases"].append(json.dumps(detail))
    try:
        model, mpo, H, dims = _big_system(seed, cplx_h)
        exact = np.linalg.eigvalsh(H)
        reseed_global(seed, "c08-big", method, nroots)
        mps = Mps.random(model, 0, M, percent=1.0)
        if cplx:
            # a complex-valued initial guess (e.g. a time-evolved state): the iterative solver works with complex trial vectors
            mps = st.complexify(mps, rng_for(seed, "c08-big-cplx", method, M))
        mps.optimize_config = OptimizeConfig(procedure=[[M, 0.3], [M, 0], [M, 0], [M, 0]])
        mps.optimize_config.method, mps.optimize_config.algo, mps.optimize_config.nroots = method, "davidson", nroots
        used = []
        o_it = gs.eigh_iterative

        def it(*a, **k):
            used.append(1)
            return o_it(*a, **k)
        gs.eigh_iterative = it
        try:
            with ChainRecorder(mps) as rec:
                energies, res = gs.optimize_mps(mps, mpo)
        finally:
            gs.eigh_iterative = o_it
        out["stats"]["iterative_calls"] = len(used)
        for isw, sweep in enumerate(rec.micro):
            for e, cidx in sweep:
                es = np.real(np.atleast_1d(np.asarray(e)))
                out["stats"]["micro"] += len(es)
                for k, ek in enumerate(es):
                    if ek < exact[k] - 1e-8:
                        out["viol"].append(("C08:bound:chain:iterative", f"sweep {isw} window {cidx} root {k}: {ek} < exact {exact[k]}", detail))
        states = [res] if nroots == 1 else list(res)
        for k, s in enumerate(states):
            v = st.dense(s).reshape(-1)
            rq = float(np.real(v.conj() @ H @ v) / np.real(v.conj() @ v))
            if abs(np.linalg.norm(v) - 1) > 1e-8 or rq < exact[0] - 1e-8:
                out["viol"].append(("C08:states:iterative", f"state {k}: norm {np.linalg.norm(v)}, energy {rq}, exact ground {exact[0]}", detail))
            if M >= 18 and abs(rq - exact[k]) > (1e-5 if nroots == 1 else 3e-4):     # Davidson's own tolerance with several (near-degenerate) roots
                out["viol"].append(("C08:exact:state:iterative", f"full bond: state {k} energy {rq}, exact {exact[k]}", detail))
        if M >= 18:
            last = np.atleast_1d(np.asarray(energies[-1], dtype=float))
            if np.abs(last - exact[:nroots]).max() > (1e-5 if nroots == 1 else 3e-4):
                out["viol"].append(("C08:exact:reported:iterative", f"full bond: reported {last}, exact {exact[:nroots]}", detail))
    except MachineryError:
        raise
    except Exception as e:
        out["viol"].append((f"C08:raises:iterative:{type(e).__name__}", f"{type(e).__name__}: {e}", detail))
    return out


def _qc_cases(args):
    """ab-initio-like Hamiltonians (qc_model, Jordan-Wigner form, two-component quantum numbers) with and without
    on-the-fly site swapping: every window energy against exact diagonalisation in the (N_alpha, N_beta) sector."""
    bootstrap()
    from renormalizer.model import h_qc, Model
    from renormalizer.mps import Mpo, Mps, gs
    from renormalizer.utils import OptimizeConfig, CompressConfig, CompressCriteria
    from renormalizer.utils.configs import OFS
    from .. import states as st
    from .c17 import random_integrals, fermi_ham
    seed, k = args
    out = {"cases": [], "viol": [], "traces": 0, "stats": {"micro": 0, "min_gap": 1.0}}
    rng = rng_for(seed, "c08qc", k)
    nsp = 2 + (k % 2)
    h, eri = random_integrals(nsp, rng, "random")
    if k % 3 == 2:
        eri = eri * 0.1                                         # weakly correlated: near mean field
    sh, aseri = h_qc.int_to_h(h, eri)
    basis, terms = h_qc.qc_model(sh, aseri)
    H = np.asarray(fermi_ham(sh, aseri), dtype=float)      # second-quantised reference, independent of the library's operator
    if np.linalg.norm(H - H.T) > 1e-10:
        raise MachineryError("the generated integrals do not give a Hermitian Hamiltonian")
    for method, nroots, ofs, M, sector in [("2site", 1, None, 16, (1, 1)), ("2site", 1, "ofs_d", 16, (1, 1)), ("2site", 1, "ofs_s", 16, (1, 1)),
                                           ("1site", 1, None, 16, (1, 1)), ("2site", 2, None, 16, (1, 1)), ("2site", 1, "ofs_ds", 3, (1, 1)),
                                           ("2site", 1, None, 3, (1, 0)), ("1site", 2, None, 16, (1, 0) if nsp > 2 else (1, 1))]:
        detail = {"model": f"qc_model nspatial={nsp}", "method": method, "nroots": nroots, "ofs": ofs, "M": M, "sector": list(sector), "k": k}
        out["cases"].append(json.dumps(detail))
        try:
            model = Model(list(basis), terms)
            mpo = Mpo(model)
            q = np.array(sector)
            mask = st.sector_projector(basis, q)
            if mask.sum() < 4 * nroots:
                out["cases"].pop()
                continue
            exact = np.linalg.eigvalsh(H[np.ix_(mask, mask)])
            scale = max(1.0, float(np.abs(exact).max()))
            reseed_global(seed, "c08qc-run", k, method, nroots, str(ofs), M)
            try:
                mps = Mps.random(model, q, M, percent=1.0)
            except FloatingPointError:
                out["cases"].pop()        # Mps.random cannot populate this sector at this bond dimension: not a case
                continue
            cc = lambda pct: [CompressConfig(CompressCriteria.fixed, max_bonddim=M, ofs=None if ofs is None else getattr(OFS, ofs)), pct]
            mps.optimize_config = OptimizeConfig(procedure=[cc(0.3), cc(0.1), cc(0), cc(0), cc(0)])
            mps.optimize_config.method, mps.optimize_config.nroots = method, nroots
            with ChainRecorder(mps) as rec:
                energies, res = gs.optimize_mps(mps, mpo)
            for isw, sweep in enumerate(rec.micro):
                for e, cidx in sweep:
                    es = np.atleast_1d(np.asarray(e, dtype=float))
                    out["stats"]["micro"] += len(es)
                    for kk, ek in enumerate(es):
                        gap = (ek - exact[kk]) / scale
                        out["stats"]["min_gap"] = min(out["stats"]["min_gap"], float(gap))
                        if gap < -TOL:
                            out["viol"].append((f"C08:bound:qc:{'ofs' if ofs else 'plain'}", f"sweep {isw} window {cidx} root {kk}: energy {ek} below the exact value {exact[kk]}", detail))
            states = [res] if nroots == 1 else list(res)
            dofs0 = [b.dofs for b in basis]
            for kk, s_ in enumerate(states):
                v = st.dense(s_)
                order = [b.dofs for b in s_.model.basis]
                v = np.asarray(v).reshape([b.nbas for b in s_.model.basis]).transpose([order.index(d) for d in dofs0]).reshape(-1)
                nv = float(np.linalg.norm(v))
                if abs(nv - 1) > 1e-8:
                    out["viol"].append(("C08:states:qc-norm", f"returned state {kk} has norm {nv}", detail))
                # with swapped sites the Jordan-Wigner strings of the reference no longer match the site order: energies only through the library
                if ofs is None:
                    leak = float(np.linalg.norm(v[~mask])) / (nv + 1e-300)
                    if leak > 1e-8:
                        out["viol"].append(("C06:gs-qc-sector-leak", f"{leak:.2e} outside the sector", detail))
                    rq = float(np.real(v[mask].conj() @ H[np.ix_(mask, mask)] @ v[mask])) / nv ** 2
                    if rq < exact[0] - TOL * scale:
                        out["viol"].append(("C08:states:qc-below-ground", f"returned state {kk}: energy {rq} < exact {exact[0]}", detail))
                    if M >= 16 and abs(sorted([rq])[0] - exact[kk]) > 1e-6 * scale and nroots == 1:
                        out["viol"].append(("C08:exact:qc-state", f"full bond: returned state energy {rq}, exact {exact[kk]}", detail))
            if M >= 16:
                last = np.atleast_1d(np.asarray(energies[-1], dtype=float))
                if np.abs(last - exact[:nroots]).max() > 1e-6 * scale:
                    out["viol"].append((f"C08:exact:qc-reported:{'ofs' if ofs else 'plain'}", f"full bond: reported {last}, exact {exact[:nroots]}", detail))
        except Exception as e:
            import traceback
            tb = traceback.format_exc(limit=4).splitlines()
            full = traceback.format_exc()
            if isinstance(e, AssertionError) and "in swap_site" in full and "auxiliary_dummy_primary_ops" in full:
                # the in-place operator swap assumes that re-factorising the two swapped sites keeps the number of operators on
                # the outer bond; it asserts when the bond of the (already swapped) operator is not minimal
                out["viol"].append(("C08:raises:qc:ofs:swap-site-bond-count", f"optimize_mps with on-the-fly swapping raised the bond-count assertion of symbolic_mpo.swap_site | {detail}", detail))
            else:
                out["viol"].append((f"C08:raises:qc:{type(e).__name__}", f"{type(e).__name__}: {e} | {' | '.join(x.strip() for x in tb[-4:-1])}", detail))
    return out


class TreeRecorder:
    def __init__(self, nodes):
        self.events, self.micro, self.nodes = [], [], nodes

    def __enter__(self):
        import renormalizer.tn.gs as tgs
        from renormalizer.tn.tree import TTNS
        self.tgs, self.TTNS = tgs, TTNS
        self.o_opt, self.o_upd = tgs.optimize_2site, TTNS.update_2site
        rec = self

        def opt(*a, **k):
            try:
                rec.events.append(["opt2", rec.nodes.index(a[1].tn2bn[a[0]]), 0])
            except Exception:
                rec.events.append(["unobserved"])
            r = rec.o_opt(*a, **k)
            try:
                rec.micro.append(float(np.real(r[0])))
            except Exception:
                pass
            return r

        def upd(self_, *a, **k):
            try:
                cp = k.get("cano_parent", a[4] if len(a) > 4 else True)
                rec.events.append(["upd2", rec.nodes.index(self_.tn2bn[a[0] if a else k["node"]]), 1 if cp else 0])
            except Exception:
                rec.events.append(["unobserved"])
            return rec.o_upd(self_, *a, **k)
        tgs.optimize_2site, TTNS.update_2site = opt, upd
        return self

    def __exit__(self, *a):
        self.tgs.optimize_2site, self.TTNS.update_2site = self.o_opt, self.o_upd


def _tree_cases(args):
    bootstrap()
    from renormalizer.tn import TTNO
    from renormalizer.tn.gs import optimize_ttns
    from .. import trees, states as st
    from ..replay_tree import TreeUniverse
    from ..replay_mpo import build_ops
    jobs, seed, schedules = args
    out = {"cases": [], "viol": [], "traces": 0, "stats": {"micro": 0, "min_gap": 1.0}}
    for (ji, par, sets, fam, algo, proc) in jobs:
        tcase = trees.make_case(par, sets, fam, variant=ji % 3)
        detail = {"tree": tcase["desc"], "algo": algo, "procedure": proc}
        out["cases"].append(json.dumps(detail))
        try:
            u = TreeUniverse(tcase, seed)
            H = np.asarray(u.dense_op["H"], dtype=float)
            ttno = u.ttno["H"]
            secs = _sectors(u.basis)
            q = secs[ji % len(secs)]
            q = int(q[0]) if len(q) == 1 else np.array(q)
            mask = st.sector_projector(u.basis, q)
            exact, Hs = _exact(H, mask)
            scale = max(1.0, float(np.abs(exact).max()))
            M0 = {"full": 64, "m2": 2, "m3p": 2}[proc]
            try:
                t = trees.random_ttns(tcase, M0, (seed, "c08t", ji), qntot=q)
            except FloatingPointError:
                out["cases"].pop()        # TTNS.random cannot populate this sector at this bond dimension: not a case
                continue
            procedure = {"full": [[64, 0.2], [64, 0], [64, 0]], "m2": [[2, 0.3], [2, 0], [2, 0]], "m3p": [[3, 0.5], [3, 0.5]]}[proc]
            t.optimize_config.algo = algo
            reseed_global(seed, "c08t-run", ji)
            with TreeRecorder(u.nodes) as rec:
                e_list = optimize_ttns(t, ttno, procedure)
            out["stats"]["micro"] += len(rec.micro)
            for i, e in enumerate(rec.micro):
                gap = (e - exact[0]) / scale
                out["stats"]["min_gap"] = min(out["stats"]["min_gap"], float(gap))
                if gap < -(1e-7 if algo != "direct" else TOL):
                    out["viol"].append(("C08:bound:tree", f"two-site problem {i}: energy {e} below the exact value {exact[0]}", detail))
                    break
            if len(e_list) != len(procedure):
                out["viol"].append(("DRIFT:C08:report:tree-length", f"{len(e_list)} energies for {len(procedure)} sweeps", detail))
            v = trees.dense(t, order=list(u.basis)).reshape(-1)
            nv = float(np.linalg.norm(v))
            if abs(nv - 1) > 1e-7:
                out["viol"].append(("C08:states:tree-norm", f"optimised tree state has norm {nv}", detail))
            leak = float(np.linalg.norm(v[~mask])) / (nv + 1e-300)
            if leak > 1e-8:
                out["viol"].append(("C06:tree-gs-sector-leak", f"{leak:.2e} outside the sector", detail))
            vs = v[mask] / nv
            rq = float(np.real(vs.conj() @ Hs @ vs))
            if rq < exact[0] - TOL * scale:
                out["viol"].append(("C08:states:tree-below-ground", f"energy {rq} < exact {exact[0]}", detail))
            if proc == "full" and abs(rq - e_list[-1]) > 1e-6 * scale:
                out["viol"].append(("C08:states:tree-energy-mismatch", f"state energy {rq}, last reported {e_list[-1]} (full bond)", detail))
            if proc == "full" and abs(e_list[-1] - exact[0]) > 1e-6 * scale:
                out["viol"].append(("C08:exact:tree", f"full bond: reported {e_list[-1]}, exact {exact[0]}", detail))
            key = json.dumps(par)
            if key in schedules:
                out["traces"] += 1
                sched = schedules[key]
                # the spec program holds two sweeps; the run has len(procedure) identical sweeps
                one = sched[:sched.index(["sweep-end", -1, 0])]
                expect = one * len(procedure)
                if rec.events != expect:
                    first = next((i for i, (a, b) in enumerate(zip(rec.events, expect)) if a != b), min(len(rec.events), len(expect)))
                    out["viol"].append(("DRIFT:C08:schedule:tree", f"recorded tree sweep differs from the specified schedule at event {first}: got {rec.events[first:first + 3]}, expected {expect[first:first + 3]}", detail))
        except Exception as e:
            import traceback
            tb = traceback.format_exc(limit=4).splitlines()
            if isinstance(e, TypeError) and "k >= N" in str(e):
                # ARPACK cannot be asked for 1 eigenpair of a 1 x 1 (sector-restricted) local problem; scipy refuses. Outside the
                # generator's scope (a candidate robustness issue of algo="arpack", not an energy claim): not a case
                out["cases"].pop()
                continue
            out["viol"].append((f"C08:raises:tree:{type(e).__name__}", f"{type(e).__name__}: {e} | {' | '.join(x.strip() for x in tb[-4:-1])}", detail))
    return out


def run(ctx):
    import random
    tier = ctx.tier
    rnd = random.Random(ctx.seed)
    # ---------------------------------------------------------------- design: TLC on the sweep controllers
    schedules, tsched = {}, {}
    for N in ((2, 3, 4) if tier == "quick" else (2, 3, 4, 5)):
        for method in ("1site", "2site"):
            for NS in (2, 3, 5):
                consts = dict(N=N, Method=f'"{method}"', NS=NS, Bug='"none"')
                r = tlc.run("Sweep", tlc.make_cfg(constants=consts, spec="Spec", invariants=["EnvFresh", "Coverage", "ResFromLastSweep", "OptIsWindow"]), mode="check", vacuity=True, timeout=3000)
                ctx.add_tlc(r, f"Sweep N={N} {method} NS={NS}: both start directions, every choice of the lowest-energy window, every convergence point")
                if r["violated"]:
                    ctx.violation(f"C08:spec:Sweep:{r['violated']}", "Sweep violates " + r["violated"], {"tlc": (r.get("error_text") or "")[:2000]})
                r = tlc.run("Sweep", tlc.make_cfg(constants=consts, spec="Spec", invariants=["EmitSchedule"], constraints=["OptFirst"]), mode="emit", timeout=3000)
                for e in r["emitted"]:
                    schedules[json.dumps([e["n"], e["method"], e["start"], e["sweeps"]])] = [list(x) for x in e["events"]]
    for N, method, bug in ((3, "1site", "lazy-system"), (4, "2site", "lazy-system"), (3, "1site", "same-methods"), (4, "2site", "same-methods")):
        cfg = tlc.make_cfg(constants=dict(N=N, Method=f'"{method}"', NS=3, Bug=f'"{bug}"'), spec="Spec", invariants=["EnvFresh"])
        r = tlc.run("Sweep", cfg, mode="check", timeout=600, expect_violation=True)
        ctx.add_tlc(r, f"regression (must fail): Sweep N={N} {method} {bug}")
        if r["violated"] != "EnvFresh":
            raise MachineryError(f"Sweep regression {bug} did not violate EnvFresh")
    for K in ((2, 3, 4) if tier == "quick" else (2, 3, 4, 5)):
        cfg = tlc.make_cfg(constants=dict(K=K, Mode='"dmrg"', Bug='"none"'), spec="Spec", invariants=["EnvFresh", "CentreHome", "DmrgCoverage", "EmitSchedule"])
        r = tlc.run("TreeOpt", cfg, mode="emit", vacuity=True, timeout=3000)
        ctx.add_tlc(r, f"TreeOpt dmrg K={K}: every increasing tree, two sweeps")
        if r["violated"]:
            ctx.violation(f"C08:spec:TreeOpt:{r['violated']}", "TreeOpt violates " + r["violated"], {"tlc": (r.get("error_text") or "")[:2000]})
        for e in r["emitted"]:
            tsched[json.dumps(e["par"])] = [list(x) for x in e["events"]]
    cfg = tlc.make_cfg(constants=dict(K=4, Mode='"dmrg"', Bug='"env2-skips-node"'), spec="Spec", invariants=["EnvFresh"])
    r = tlc.run("TreeOpt", cfg, mode="check", timeout=600, expect_violation=True)
    ctx.add_tlc(r, "regression (must fail): TreeOpt dmrg env2-skips-node")
    if r["violated"] != "EnvFresh":
        raise MachineryError("TreeOpt regression did not violate EnvFresh")
    # ---------------------------------------------------------------- chain runs
    jobs = []
    ji = 0
    fams = [("spin", 3), ("elec", 4), ("eph", 4), ("spin", 4), ("eph", 3), ("elec", 3)]
    procs = ["full4", "m2", "thresh", "full2", "m3", "m2p", "two"]
    for fam, N in fams:
        for method in ("1site", "2site"):
            for nroots in (1, 2, 3, 4):
                for proc in procs:
                    for oprov in ("model", "scaled", "sum", "stacked"):
                        for sprov in ("fresh", "cano", "sum", "applied", "moved"):
                            for use_omega in (False, True):
                                if use_omega and (oprov == "stacked" or nroots > 1):
                                    continue
                                jobs.append((ji, fam, N, ji % 2, method, "direct" if ji % 3 else "davidson", nroots, proc, oprov, sprov, use_omega))
                                ji += 1
    if tier == "quick":
        # stratified: every value of every dimension appears, omega and full-bond cases over-represented
        pick = rnd.sample(jobs, 500)
        pick += rnd.sample([j for j in jobs if j[10]], 150)
        pick += rnd.sample([j for j in jobs if j[7].startswith("full")], 150)
        jobs = pick
    else:
        jobs = rnd.sample(jobs, 6000)
    n = 64
    res = pmap(_chain_cases, [(jobs[i::n], ctx.seed, schedules) for i in range(n) if jobs[i::n]], chunksize=1)
    big = [(ctx.seed, m, k, M, False) for m in ("1site", "2site") for k in (1, 3) for M in ((8, 18) if tier == "quick" else (6, 10, 14, 18))]
    big += [(ctx.seed, m, 1, M, True) for m in ("1site", "2site") for M in ((18,) if tier == "quick" else (10, 18))]
    # complex Hermitian Hamiltonian, several roots, iterative solver
    big += [(ctx.seed, m, k, 18, True, True) for m, k in ((("2site", 2), ("1site", 3)) if tier == "quick" else (("2site", 2), ("1site", 3), ("2site", 3), ("1site", 2)))]
    res += pmap(_big_cases, big, chunksize=1)
    res += pmap(_qc_cases, [(ctx.seed, k) for k in range(6 if tier == "quick" else 24)], chunksize=1)
    # ---------------------------------------------------------------- tree runs
    tjobs = []
    tj = 0
    for key in tsched:
        par = json.loads(key)
        K = len(par)
        variants = [[1] * K]
        v = [1] * K
        v[K - 1] = 2
        variants.append(v)
        if K >= 3:
            v = [1] * K
            v[1] = 0
            variants.append(v)
        for sets in variants:
            if sum(sets) < 2 or sum(sets) > 5:
                continue
            for proc in ("full", "m2", "m3p"):
                tjobs.append((tj, par, sets, ["spin", "elec", "eph"][tj % 3], ["davidson", "direct", "arpack"][(tj // 3) % 3], proc))
                tj += 1
    if tier == "quick":
        tjobs = rnd.sample(tjobs, min(len(tjobs), 120))
    res += pmap(_tree_cases, [(tjobs[i::32], ctx.seed, tsched) for i in range(32) if tjobs[i::32]], chunksize=1)
    other, micro, gap, iterative = {}, 0, 1.0, 0
    for st_, o in res:
        if st_ != "ok":
            raise MachineryError("C08 worker failed: " + o)
        for c in o["cases"]:
            ctx.case(fingerprint=c, nontrivial=True)
        for key, what, detail in o["viol"]:
            if key.startswith("C08") or key.startswith("DRIFT:C08"):
                ctx.violation(key, what, detail)
            else:
                other[key] = other.get(key, 0) + 1
        ctx.traces(o["traces"])
        micro += o["stats"]["micro"]
        gap = min(gap, o["stats"]["min_gap"])
        iterative += o["stats"].get("iterative_calls", 0)
    if not iterative:
        raise MachineryError("the iterative chain eigensolver was never exercised")
    ctx.notes["measured"] = {"energies_compared_with_exact": micro, "smallest_relative_gap_to_exact": gap, "iterative_local_problems": iterative}
    ctx.notes["observed_for_other_properties"] = other
    ctx.sample({"chain_schedule_from_TLC": {"key": list(schedules)[-1], "events": schedules[list(schedules)[-1]][:9]}})
    ctx.cov["rule"] = ("(system family/size/sector, method, eigensolver, roots 1..4, procedure (7: full/limited/threshold bonds, perturbation), operator provenance "
                       "(model, scaled, sum, stacked), initial-state provenance (fresh, canonicalised, sum, operator x state, moved centre), omega) for chains; "
                       "qc_model Hamiltonians (2-3 spatial orbitals, (N_alpha, N_beta) sectors) x method x roots x on-the-fly swapping (off, ofs_d, ofs_s, ofs_ds); "
                       "(tree from TLC x grouping, family, eigensolver, procedure) for trees; distinct = distinct tuple; every window energy of every sweep is compared")
    ctx.assumptions += ["exact diagonalisation of the dense Hamiltonian restricted to the sector by numpy.linalg.eigvalsh is the oracle; bound tolerance 1e-8 relative",
                        "primme is not installed offline: direct, davidson (chain and tree) and arpack (tree) are the eigensolvers covered"]
