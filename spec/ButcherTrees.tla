---------------------------- MODULE ButcherTrees ----------------------------
(* Rooted trees of Butcher's order theory (renormalizer/utils/rk.py tableaux, C19).

   A state is one INCREASING labelled tree on nodes 1..n  (par[1] = 0, par[k] < k).  Every rooted
   tree shape of order n occurs, exactly alpha(t) = n! / (sigma(t) gamma(t)) times, among the
   (n-1)! increasing trees, so enumerating them for n <= MaxOrder is complete for the order conditions
        Sum_i b_i Phi_i(t) = 1 / gamma(t)        for every rooted tree t with |t| <= order.
   TLC computes the density gamma(t) by its recursion and emits every tree; the harness evaluates
   the elementary weights of the ten shipped tableaux on these trees with exact rationals.       *)
EXTENDS Integers, Sequences, FiniteSets, TLC, Json
CONSTANT MaxOrder

VARIABLES n, par
vars == <<n, par>>

Trees(k) == {p \in [1..k -> 0..k] : p[1] = 0 /\ \A m \in 2..k : p[m] \in 1..(m - 1)}
Init == n \in 1..MaxOrder /\ par \in Trees(n)
\* Graft: a tree of order n+1 arises from one of order n by attaching a new leaf to any node
Graft(m) == /\ n < MaxOrder /\ m \in 1..n
            /\ n' = n + 1 /\ par' = [k \in 1..(n + 1) |-> IF k = n + 1 THEN m ELSE par[k]]
Next == \E m \in 1..MaxOrder : Graft(m)
Spec == Init /\ [][Next]_vars

Children(p, k, x) == {m \in 1..k : p[m] = x}
RECURSIVE Size(_, _, _), Gamma(_, _, _), ProdGamma(_, _, _), Height(_, _, _)
Size(p, k, x) == 1 + LET C == Children(p, k, x) IN
                     IF C = {} THEN 0 ELSE LET SumS[S \in SUBSET C] == IF S = {} THEN 0 ELSE LET y == CHOOSE y \in S : TRUE IN Size(p, k, y) + SumS[S \ {y}] IN SumS[C]
ProdGamma(p, k, S) == IF S = {} THEN 1 ELSE LET y == CHOOSE y \in S : TRUE IN Gamma(p, k, y) * ProdGamma(p, k, S \ {y})
\* density: gamma(t) = |t| * prod gamma(subtrees)
Gamma(p, k, x) == Size(p, k, x) * ProdGamma(p, k, Children(p, k, x))
Height(p, k, x) == IF x = 1 THEN 1 ELSE 1 + Height(p, k, p[x])

Fact[m \in 0..8] == IF m = 0 THEN 1 ELSE m * Fact[m - 1]
IsChain == \A m \in 2..n : par[m] = m - 1
IsBush == \A m \in 2..n : par[m] = 1

\* sanity of the recursion on the two extreme shapes and the general bounds  n <= gamma <= n!
GammaInv == /\ Gamma(par, n, 1) >= n /\ Gamma(par, n, 1) <= Fact[n]
            /\ (IsChain => Gamma(par, n, 1) = Fact[n])
            /\ (IsBush => Gamma(par, n, 1) = n)
            /\ Size(par, n, 1) = n
\* every tree of order n+1 is a graft of one of order n (so the enumeration by Graft is complete)
GraftComplete == n > 1 => [k \in 1..(n - 1) |-> par[k]] \in Trees(n - 1)

Emit == PrintT(<<"EMIT", ToJson([n |-> n, par |-> par, gamma |-> Gamma(par, n, 1)])>>)
=============================================================================
