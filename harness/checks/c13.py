"""C13 — operations return new objects and never disturb their inputs (MpHeap frame property)."""
from . import c03

LEVEL = "model_checking"
OWNED = ("C13",)


def run(ctx):
    c03.run(ctx, owned=OWNED, extra="c13")
    # tree states: the same frame comparison along TtnHeap histories (both mirrored universes)
    from . import c11
    c11.run(ctx, owned=OWNED)
    # tree time evolution: input compared before/after every TTNS.evolve call (4 schemes, real and imaginary time)
    from . import c12
    c12.run(ctx, owned="C13")
