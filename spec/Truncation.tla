----------------------------- MODULE Truncation -----------------------------
(* Kept-count rule of CompressConfig.compute_m_trunc (renormalizer/utils/configs.py) and the bond-index convention
   used by MatrixProduct.compress (renormalizer/mps/mp.py).

   A spectrum is a non-increasing sequence of non-negative integers s (the singular values up to a common scale;
   only ratios matter).  Threshold t = Tp / Tq.
     threshold:  kept = #{ i : s_i / ||s|| > t }   <=>   Tq^2 * s_i^2 > Tp^2 * sum_j s_j^2        (exact in integers)
     fixed    :  kept = min(maxDims[bond], len)   with bond = idx + 1 when sweeping to the right ("left" = TRUE), else idx
     both     :  the smaller of the two
   RepairedFloor = TRUE models max(1, .) on the threshold count (a flat spectrum under a large threshold keeps 0
   vectors in the pinned code, after which the site tensor has a zero-length bond).                          *)
EXTENDS Integers, Sequences, FiniteSets, TLC, Json
CONSTANTS MaxLen, MaxVal, MaxM, Thresholds, RepairedFloor

VARIABLES s, crit, thr, maxdims, idx, left
vars == <<s, crit, thr, maxdims, idx, left>>

NonIncr(q) == \A i \in 1..(Len(q) - 1) : q[i] >= q[i + 1]
RECURSIVE SumSq(_)
SumSq(q) == IF q = <<>> THEN 0 ELSE Head(q) * Head(q) + SumSq(Tail(q))
Min(a, b) == IF a < b THEN a ELSE b
Max(a, b) == IF a > b THEN a ELSE b

KeptThreshold(q, t) == LET c == Cardinality({i \in 1..Len(q) : t[2] * t[2] * q[i] * q[i] > t[1] * t[1] * SumSq(q)})
                       IN IF RepairedFloor THEN Max(1, c) ELSE c
BondIdx(i, l) == IF l THEN i + 1 ELSE i
KeptFixed(q, md, i, l) == Min(md[BondIdx(i, l) + 1], Len(q))          \* md is 1-based here: md[b + 1] = max_dims[b]
Kept(q, c, t, md, i, l) == IF c = "threshold" THEN KeptThreshold(q, t)
                           ELSE IF c = "fixed" THEN KeptFixed(q, md, i, l)
                           ELSE Min(KeptThreshold(q, t), KeptFixed(q, md, i, l))

NSites == 3
ThrAll == {<<1, 10>>, <<1, 2>>, <<9, 10>>}     \* substituted for Thresholds (a cfg cannot hold tuples)
ThrFine == {<<1, 100>>, <<1, 10>>, <<3, 10>>, <<1, 2>>, <<7, 10>>, <<9, 10>>, <<99, 100>>}
Init == /\ s \in {q \in UNION {[1..k -> 0..MaxVal] : k \in 1..MaxLen} : NonIncr(q) /\ q[1] > 0}
        /\ crit \in {"threshold", "fixed", "both"}
        /\ thr \in Thresholds
        /\ maxdims \in [1..(NSites + 1) -> 1..MaxM]
        /\ left \in BOOLEAN
        /\ idx \in (IF left THEN 0..(NSites - 2) ELSE 1..(NSites - 1))      \* iter_idx_list(full=False)
Next == FALSE /\ UNCHANGED vars
Spec == Init /\ [][Next]_vars

K == Kept(s, crit, thr, maxdims, idx, left)
AtLeastOne == K >= 1
NeverMoreThanAvailable == K <= Len(s)
WithinLimit == crit \in {"fixed", "both"} => K <= maxdims[BondIdx(idx, left) + 1]
\* the bond the limit is read for is the bond being truncated: between site idx and its neighbour in sweep direction
BondIsTheCutBond == BondIdx(idx, left) \in 1..(NSites - 1)
\* criteria agree on their common domain
BothIsMin == crit = "both" => K = Min(Kept(s, "threshold", thr, maxdims, idx, left), Kept(s, "fixed", thr, maxdims, idx, left))
\* the threshold rule keeps a prefix: a value is kept only if every larger one is
PrefixRule == \A i, j \in 1..Len(s) : (i < j /\ thr[2] * thr[2] * s[j] * s[j] > thr[1] * thr[1] * SumSq(s))
                                        => thr[2] * thr[2] * s[i] * s[i] > thr[1] * thr[1] * SumSq(s)

Emit == PrintT(<<"EMIT", ToJson([s |-> s, crit |-> crit, thr |-> thr, maxdims |-> maxdims, idx |-> idx, left |-> left, kept |-> K])>>)
=============================================================================
