------------------------------- MODULE SweepPS -------------------------------
(* Mps._evolve_tdvp_ps (mps/mps.py:1267-1404): two half sweeps driven by iter_idx_list(full=True)
   from whatever (qnidx, to_right) the input state carries. Versions/stamps as in TreeSweep.        *)
EXTENDS Integers, Sequences, FiniteSets, TLC, Json
CONSTANTS N, Regauge          \* Regauge = TRUE: the call first moves the centre to the matching end (repair candidate)
Sites == 0..(N - 1)
VARIABLES c, toRight, half, todo, ver, L, R, fwd, bnd, bad, ortho, evs
vars == <<c, toRight, half, todo, ver, L, R, fwd, bnd, bad, ortho, evs>>

IterIdx(cc, tr) == IF tr THEN [k \in 1..(N - cc) |-> cc + k - 1] ELSE [k \in 1..(cc + 1) |-> cc - k + 1]
\* L[i] depends on sites 0..i, R[i] on sites i..N-1 ; stamps are version vectors
FreshL(i) == i < 0 \/ \A m \in 0..i : L[i][m] = ver[m]
FreshR(i) == i > N - 1 \/ \A m \in i..(N - 1) : R[i][m] = ver[m]
Bump(v, S) == [m \in Sites |-> IF m \in S THEN v[m] + 1 ELSE v[m]]

Init == /\ c \in Sites /\ toRight \in BOOLEAN
        /\ ortho \in Sites                       \* where the orthogonality centre really is (ghost)
        /\ half = 1
        /\ ver = [m \in Sites |-> 0]
        /\ L = [i \in Sites |-> [m \in Sites |-> 0]] /\ R = [i \in Sites |-> [m \in Sites |-> 0]]   \* Environ(mps, mpo): all fresh
        /\ fwd = [m \in Sites |-> 0] /\ bnd = [b \in 1..(N - 1) |-> 0] /\ bad = {} /\ evs = <<>>
        /\ todo = IF Regauge THEN IterIdx(IF toRight THEN 0 ELSE N - 1, toRight) ELSE IterIdx(c, toRight)

Step ==
  /\ todo # <<>>
  /\ LET i == Head(todo)
         b1 == (IF FreshL(i - 1) /\ FreshR(i + 1) THEN {} ELSE {<<"stale-1site", i>>})
               \cup (IF (Regauge \/ ortho = i) THEN {} ELSE {<<"not-orthogonality-centre", i>>})
         v1 == Bump(ver, {i})
     IN IF ~toRight /\ i # 0
        THEN \* mps[i] = vt ; R[i] rebuilt (System) ; bond evolved backward ; mps[i-1] absorbs it
             LET r1 == [R EXCEPT ![i] = [m \in Sites |-> IF m = i THEN v1[i] ELSE IF m > i /\ i + 1 <= N - 1 THEN R[i + 1][m] ELSE 0]]
                 ok0 == FreshL(i - 1) /\ (\A m \in i..(N - 1) : r1[i][m] = v1[m])
             IN /\ R' = r1 /\ L' = L /\ ver' = Bump(v1, {i - 1})
                /\ bnd' = [bnd EXCEPT ![i] = @ + 1] /\ ortho' = i - 1
                /\ bad' = bad \cup b1 \cup (IF ok0 THEN {} ELSE {<<"stale-0site", i>>})
        ELSE IF toRight /\ i # N - 1
        THEN LET l1 == [L EXCEPT ![i] = [m \in Sites |-> IF m = i THEN v1[i] ELSE IF m < i /\ i - 1 >= 0 THEN L[i - 1][m] ELSE 0]]
                 ok0 == FreshR(i + 1) /\ (\A m \in 0..i : l1[i][m] = v1[m])
             IN /\ L' = l1 /\ R' = R /\ ver' = Bump(v1, {i + 1})
                /\ bnd' = [bnd EXCEPT ![i + 1] = @ + 1] /\ ortho' = i + 1
                /\ bad' = bad \cup b1 \cup (IF ok0 THEN {} ELSE {<<"stale-0site", i>>})
        ELSE /\ ver' = v1 /\ bad' = bad \cup b1 /\ UNCHANGED <<L, R, bnd, ortho>>
  /\ fwd' = [fwd EXCEPT ![Head(todo)] = @ + 1]
  \* the calls the code makes, in order: environ.read L/R, forward local evolution of the site, then (not at the far end)
  \* GetLR(System) of the block that absorbed the site and the backward evolution of the bond matrix
  /\ evs' = evs \o << <<"read", "L", Head(todo) - 1>>, <<"read", "R", Head(todo) + 1>>, <<"ev1", "+", Head(todo)>> >>
                 \o (IF ~toRight /\ Head(todo) # 0 THEN << <<"sys", "R", Head(todo)>>, <<"ev0", "-", Head(todo)>> >>
                     ELSE IF toRight /\ Head(todo) # N - 1 THEN << <<"sys", "L", Head(todo)>>, <<"ev0", "-", Head(todo) + 1>> >>
                     ELSE <<>>)
  /\ todo' = Tail(todo)
  /\ UNCHANGED <<c, toRight, half>>

\* mps._switch_direction() after each half sweep
Switch == /\ todo = <<>> /\ half <= 2
          /\ toRight' = ~toRight /\ c' = IF toRight THEN N - 1 ELSE 0
          /\ half' = half + 1
          /\ todo' = IF half = 1 THEN IterIdx(IF toRight THEN N - 1 ELSE 0, ~toRight) ELSE <<>>
          /\ UNCHANGED <<ver, L, R, fwd, bnd, bad, ortho, evs>>
Next == Step \/ Switch
Spec == Init /\ [][Next]_vars

EnvFresh == \A x \in bad : x[1] \notin {"stale-1site", "stale-0site"}
OnCentre == \A x \in bad : x[1] # "not-orthogonality-centre"
FullCoverage == (half = 3) => /\ \A m \in Sites : fwd[m] = 2
                              /\ \A b \in 1..(N - 1) : bnd[b] = 2
\* the schedule of one call for every entry gauge (with re-gauging only the direction flag matters)
EmitSchedule == (half = 3) => PrintT(<<"EMIT", ToJson([n |-> N, start |-> (IF toRight THEN "R" ELSE "L"), events |-> evs])>>)
=============================================================================
