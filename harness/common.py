"""Shared infrastructure: repo bootstrap, evidence, findings protocol, parallel map.

Every check is a function run(ctx) -> None that records cases / violations on a Ctx and the
CLI finalises it (evidence file, KNOWN-FINDING / VIOLATION lines, exit code).
"""
import hashlib
import json
import os
import sys
import time
import traceback

VERIF = os.path.dirname(os.path.dirname(os.path.abspath(__file__)))
REPO = os.environ.get("VERIF_REPO", "/repo")
GUARD = "RENORMALIZER_VERIF"


def bootstrap():
    """Make `import renormalizer` use the tree under VERIF_REPO, quietly and single-threaded."""
    os.environ.setdefault("RENO_NUM_THREADS", "1")
    os.environ.setdefault("OMP_NUM_THREADS", "1")
    os.environ.setdefault("MKL_NUM_THREADS", "1")
    os.environ.setdefault("OPENBLAS_NUM_THREADS", "1")
    os.environ.setdefault("RENO_LOG_LEVEL", "50")
    os.environ[GUARD] = "1"
    stubs = os.path.join(VERIF, "harness", "stubs")
    for p in (stubs, REPO):
        if p in sys.path:
            sys.path.remove(p)
    sys.path.insert(0, REPO)
    sys.path.insert(0, stubs)
    import logging
    logging.disable(logging.CRITICAL)
    import warnings
    warnings.filterwarnings("ignore")
    import renormalizer  # noqa: F401
    assert os.path.abspath(renormalizer.__file__).startswith(os.path.abspath(REPO)), renormalizer.__file__
    return renormalizer


def seed_env():
    try:
        return int(os.environ.get("VERIF_SEED", "0"))
    except ValueError:
        return 0


def rng_for(*keys):
    import numpy as np
    ints = []
    for k in keys:
        if isinstance(k, int):
            ints.append(k & 0xFFFFFFFF)
        else:
            ints.append(int(hashlib.sha1(str(k).encode()).hexdigest()[:8], 16))
    return np.random.default_rng(ints)


def reseed_global(*keys):
    """The library draws from numpy's global RNG (Mps.random, Davidson guesses)."""
    import numpy as np
    s = int(hashlib.sha1(repr(keys).encode()).hexdigest()[:8], 16)
    np.random.seed(s)


class MachineryError(Exception):
    pass


class Ctx:
    def __init__(self, pid, tier, seed, level):
        self.pid = pid
        self.tier = tier
        self.seed = seed
        self.level = level
        self.t0 = time.time()
        self.cov = {"evaluations": 0, "distinct_nontrivial": 0, "rule": "", "samples": [],
                    "states": 0, "transitions": 0, "traces_validated_against_impl": 0}
        self.assumptions = []
        self.violations = []      # list of dict(key, what, replay)
        self.known = []           # known-finding hits
        self.notes = {}
        self.tlc_runs = []
        self._distinct = set()
        self.findings = load_findings()
        self.only_key = None       # replay mode: report this violation key only, leave the evidence file alone

    # ---- coverage bookkeeping
    def add_tlc(self, res, label=None):
        self.cov["states"] += int(res.get("distinct", 0))
        self.cov["transitions"] += int(res.get("generated", 0))
        self.tlc_runs.append({"label": label or res.get("module"), "distinct": res.get("distinct"),
                              "generated": res.get("generated"), "wall_s": round(res.get("wall_s", 0), 2),
                              "mode": res.get("mode"), "coverage": res.get("coverage_summary")})

    def case(self, fingerprint=None, nontrivial=True, n=1):
        self.cov["evaluations"] += n
        if nontrivial and fingerprint is not None:
            self._distinct.add(fingerprint if isinstance(fingerprint, (str, int, tuple)) else json.dumps(fingerprint, sort_keys=True, default=str))

    def sample(self, obj, limit=6):
        if len(self.cov["samples"]) < limit:
            self.cov["samples"].append(obj)

    def traces(self, n=1):
        self.cov["traces_validated_against_impl"] += n

    # ---- findings protocol
    def violation(self, key, what, replay=None):
        """key: specific fingerprint 'Cxx:...'; matched against known_findings.json (open entries only)."""
        if key.startswith("DRIFT:"):
            self.drift(key, what, replay)
            return False
        if self.only_key is not None and key != self.only_key:
            return False
        for f in self.findings:
            if f.get("status") == "open" and f.get("property") == self.pid and f.get("key") == key:
                if key not in [k["key"] for k in self.known]:
                    self.known.append({"key": key, "what": f.get("what", what)})
                return False
        if any(v["key"] == key for v in self.violations):
            return True
        rp = None
        d = os.path.join(VERIF, "out", "replays")
        os.makedirs(d, exist_ok=True)
        h = hashlib.sha1((key + json.dumps(replay, sort_keys=True, default=str)).encode()).hexdigest()[:10]
        rp = os.path.join(d, f"{self.pid}-{h}.json")
        with open(rp, "w") as fh:
            json.dump({"property": self.pid, "key": key, "what": what, "seed": self.seed, "tier": self.tier,
                       "case": replay}, fh, indent=1, default=str)
        self.violations.append({"key": key, "what": what, "replay": rp})
        return True

    def drift(self, key, what, detail=None):
        """two-stage rule (DESIGN 2.2): a recorded execution that is not a behaviour of the specification, for a property that
        only constrains RESULTS, is a candidate, not a violation: it is reported (SPEC-DRIFT line, evidence) and the dense
        oracle that runs on the same case decides.  Never changes the exit status."""
        if key.startswith("DRIFT:"):
            key = key[6:]
        lst = self.notes.setdefault("spec_drift", [])
        if not any(d["key"] == key for d in lst):
            lst.append({"key": key, "what": what, "example": detail})
            print(f"SPEC-DRIFT property={self.pid} {key} :: {what[:300]} (not an alarm: the result oracle of the same case decides)")

    def finalize(self):
        self.cov["distinct_nontrivial"] = len(self._distinct)
        wall = time.time() - self.t0
        cov = dict(self.cov)
        cov["tlc_runs"] = self.tlc_runs
        cov.update(self.notes)
        if not cov["samples"]:
            cov["samples"] = ["(no sample recorded)"]
        ev = {"property_id": self.pid, "tier": self.tier, "seed": self.seed, "level": self.level,
              "coverage": cov, "assumptions": self.assumptions, "wall_s": round(wall, 2),
              "violations": len(self.violations),
              "known_findings_hit": self.known}
        if self.only_key is None:
            # VERIF_EVIDENCE_DIR: tooling only (mutant runs against a scratch worktree must not overwrite the real evidence)
            evdir = os.environ.get("VERIF_EVIDENCE_DIR") or os.path.join(VERIF, "evidence")
            os.makedirs(evdir, exist_ok=True)
            with open(os.path.join(evdir, f"{self.pid}.json"), "w") as fh:
                json.dump(ev, fh, indent=1, default=str)
        for k in self.known:
            print(f"KNOWN-FINDING: property={self.pid} {k['key']} :: {k['what']}")
        for v in self.violations:
            print(f"VIOLATION property={self.pid} replay={v['replay']}")
            print(f"  key={v['key']} :: {v['what']}")
        print(f"[{self.pid}] tier={self.tier} seed={self.seed} evaluations={cov['evaluations']} "
              f"distinct_nontrivial={cov['distinct_nontrivial']} states={cov['states']} "
              f"traces={cov['traces_validated_against_impl']} violations={len(self.violations)} "
              f"known={len(self.known)} wall={wall:.1f}s")
        return 1 if self.violations else 0


def load_findings():
    p = os.path.join(VERIF, "known_findings.json")
    if not os.path.exists(p):
        return []
    with open(p) as fh:
        return json.load(fh).get("findings", [])


# ---------------------------------------------------------------------------------------------
# process-parallel map (fork) with per-item exception capture

def _worker(args):
    fn, item = args
    try:
        return ("ok", fn(item))
    except BaseException as e:  # noqa
        return ("exc", f"{type(e).__name__}: {e}\n{traceback.format_exc(limit=6)}")


def pmap(fn, items, procs=None, chunksize=None):
    """fn must be a module-level function. Returns list of ('ok', result) | ('exc', text), in the order of `items`.
    A worker process that dies (e.g. killed by the kernel for memory) is detected (BrokenProcessPool) instead of hanging the
    pool for ever; the unfinished items are retried once, one process per item with little parallelism, and reported as
    ('exc', ...) if they kill their worker again.  Every worker gets an address-space limit so that one runaway case cannot
    take the machine down."""
    import multiprocessing as mp
    from concurrent.futures import ProcessPoolExecutor
    from concurrent.futures.process import BrokenProcessPool
    items = list(items)
    if not items:
        return []
    procs = procs or min(16, os.cpu_count() or 1)
    if procs == 1 or len(items) == 1:
        return [_worker((fn, it)) for it in items]
    ctx = mp.get_context("fork")
    results = [None] * len(items)

    def run(indices, nproc):
        pending = list(indices)
        try:
            with ProcessPoolExecutor(max_workers=nproc, mp_context=ctx, initializer=_limit_memory) as ex:
                futs = {i: ex.submit(_worker, (fn, items[i])) for i in pending}
                for i, f in futs.items():
                    try:
                        results[i] = f.result()
                    except BrokenProcessPool:
                        raise
                    except BaseException as e:  # noqa
                        results[i] = ("exc", f"{type(e).__name__}: {e}")
        except BrokenProcessPool:
            pass
        return [i for i in pending if results[i] is None]
    left = run(range(len(items)), procs)
    if left:
        left2 = []
        for i in left:                         # isolate the culprit: one fresh single-worker pool per item
            if run([i], 1):
                left2.append(i)
        for i in left2:
            results[i] = ("exc", "worker process died (killed, most likely for memory) while running this item")
    return results


def _limit_memory():
    try:
        import resource
        cap = int(os.environ.get("VERIF_WORKER_MEM_GB", "12")) * 2 ** 30
        resource.setrlimit(resource.RLIMIT_AS, (cap, cap))
    except Exception:
        pass


def chunks(lst, n):
    k = max(1, (len(lst) + n - 1) // n)
    return [lst[i:i + k] for i in range(0, len(lst), k)]
