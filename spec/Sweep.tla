-------------------------------- MODULE Sweep --------------------------------
(* mps/gs.py: optimize_mps / single_sweep as a controller over a chain of N sites.
   Site tensors and cached environments carry version stamps: L[i] summarises sites 0..i, R[i] sites i..N-1.
   "System" = recompute from the stored neighbour environment and the current site tensor and store;
   "Enviro" = read the stored environment.  A local eigenproblem that consumes an environment whose stamp differs
   from the current tensors is recorded in `bad`.
   Macro loop: procedure of NS sweeps; the window of lowest energy of a sweep (any window: nondeterministic) tells the
   NEXT sweep where to take the returned copy; convergence may end the loop after any sweep with isweep > 0, percent = 0. *)
EXTENDS Integers, Sequences, FiniteSets, TLC, Json
CONSTANTS N, Method, NS, Bug
Sites == 0..(N-1)
VARIABLES dir, sweep, idx, ver, lst, rst, lhave, rhave, centre, bad, evs, opt, optNext, resSweep, visited, phase
vars == <<dir, sweep, idx, ver, lst, rst, lhave, rhave, centre, bad, evs, opt, optNext, resSweep, visited, phase>>

Zero == [m \in Sites |-> 0]
\* Environ(mps, mpo, "R"): R[i] for i = N-1 .. 1;  Environ(mps, mpo, "L"): L[i] for i = 0 .. N-2   (range(start, end, inc) excludes end)
Init == /\ dir \in {"R", "L"}
        /\ sweep = 1 /\ ver = Zero /\ bad = {} /\ evs = <<>>
        /\ lst = [i \in Sites |-> Zero] /\ rst = [i \in Sites |-> Zero]
        /\ lhave = IF dir = "L" THEN 0..(N-2) ELSE {}
        /\ rhave = IF dir = "R" THEN 1..(N-1) ELSE {}
        /\ idx = IF dir = "R" THEN 0 ELSE N-1
        /\ centre = idx
        /\ opt = -1 /\ optNext = -1 /\ resSweep = 0 /\ visited = {} /\ phase = "sweep"

FreshL(st, have, i) == i < 0 \/ (i \in have /\ \A m \in 0..i : st[i][m] = ver[m])
FreshR(st, have, i) == i > N-1 \/ (i \in have /\ \A m \in i..(N-1) : st[i][m] = ver[m])

\* window of the step at loop index i
Win(i) == IF Method = "1site" THEN <<i, i>>
          ELSE IF dir = "R" THEN <<i, i+1>> ELSE <<i-1, i>>
LIdx(i) == Win(i)[1] - 1
RIdx(i) == Win(i)[2] + 1
Last(i) == IF dir = "R" THEN i = N-1 ELSE i = 0

\* GetLR(domain, siteidx, method = "System"): itensor = read(domain, siteidx -/+ 1); contract site; write
SysL(i) == IF i < 0 THEN lst ELSE
           [lst EXCEPT ![i] = [m \in Sites |-> IF m = i THEN ver[i] ELSE IF m < i /\ i > 0 THEN lst[i-1][m] ELSE 0]]
SysR(i) == IF i > N-1 THEN rst ELSE
           [rst EXCEPT ![i] = [m \in Sites |-> IF m = i THEN ver[i] ELSE IF m > i /\ i < N-1 THEN rst[i+1][m] ELSE 0]]

Step ==
  /\ phase = "sweep" /\ idx \in Sites
  /\ ~(Method = "2site" /\ Last(idx))
  /\ LET l == LIdx(idx)  r == RIdx(idx)  w == Win(idx)
         lazy == (Bug = "lazy-system")                       \* regression: the system block is read from the cache as well
         sd == IF Bug = "same-methods" THEN "R" ELSE dir   \* regression: (lmethod, rmethod) not swapped with the direction
         l1 == IF sd = "R" /\ ~lazy THEN SysL(l) ELSE lst
         r1 == IF sd = "L" /\ ~lazy THEN SysR(r) ELSE rst
         lh == IF sd = "R" /\ l >= 0 /\ ~lazy THEN lhave \cup {l} ELSE lhave
         rh == IF sd = "L" /\ r <= N-1 /\ ~lazy THEN rhave \cup {r} ELSE rhave
         \* reading the neighbour environment that is not there is a KeyError in the code
         missing == (sd = "R" /\ l > 0 /\ ~lazy /\ (l-1) \notin lhave) \/ (sd = "L" /\ r < N-1 /\ ~lazy /\ (r+1) \notin rhave)
         ok == FreshL(l1, lh, l) /\ FreshR(r1, rh, r) /\ ~missing /\ centre \in {w[1], w[2]}
         \* _update_mps
         touched == IF Method = "2site" THEN {w[1], w[2]}
                    ELSE IF dir = "R" THEN (IF idx # N-1 THEN {idx, idx+1} ELSE {idx})
                    ELSE (IF idx # 0 THEN {idx, idx-1} ELSE {idx})
         c1 == IF Method = "2site" THEN (IF dir = "R" THEN w[2] ELSE w[1])
               ELSE IF dir = "R" THEN (IF idx # N-1 THEN idx+1 ELSE N-1) ELSE (IF idx # 0 THEN idx-1 ELSE 0)
     IN /\ lst' = l1 /\ rst' = r1 /\ lhave' = lh /\ rhave' = rh
        /\ bad' = IF ok THEN bad ELSE bad \cup {<<sweep, w>>}
        /\ ver' = [m \in Sites |-> IF m \in touched THEN ver[m] + 1 ELSE ver[m]]
        /\ centre' = c1
        /\ evs' = evs \o << <<"L", l, IF dir = "R" THEN "System" ELSE "Enviro">>, <<"R", r, IF dir = "R" THEN "Enviro" ELSE "System">>, <<"upd", w[1], w[2]>> >>
        /\ visited' = visited \cup {w}
        /\ resSweep' = IF w[1] = opt THEN sweep ELSE resSweep          \* cidx == last_opt_e_idx
        /\ idx' = IF dir = "R" THEN idx + 1 ELSE idx - 1
  /\ UNCHANGED <<dir, sweep, opt, optNext, phase>>

SweepDone == IF dir = "R" THEN idx > N-1 \/ (Method = "2site" /\ idx = N-1)
                          ELSE idx < 0 \/ (Method = "2site" /\ idx = 0)

EndSweep ==
  /\ phase = "sweep" /\ SweepDone
  /\ phase' = "between"
  /\ \E w \in visited : optNext' = w[1]                  \* opt_e = min(micro_iteration_result): any window of this sweep
  /\ UNCHANGED <<dir, sweep, idx, ver, lst, rst, lhave, rhave, centre, bad, evs, opt, resSweep, visited>>

\* _switch_direction, then either the next entry of the procedure, convergence, or the end of the procedure
NextSweep ==
  /\ phase = "between"
  /\ \/ /\ sweep < NS /\ phase' = "sweep" /\ sweep' = sweep + 1
        /\ dir' = IF dir = "R" THEN "L" ELSE "R"
        /\ idx' = IF dir = "R" THEN N-1 ELSE 0
        /\ centre' = centre
        /\ opt' = optNext /\ optNext' = -1 /\ visited' = {}
        /\ UNCHANGED <<ver, lst, rst, lhave, rhave, bad, evs, resSweep>>
     \/ /\ (sweep = NS \/ sweep > 1)                     \* procedure exhausted, or converged (needs isweep > 0)
        /\ phase' = "done"
        /\ UNCHANGED <<dir, sweep, idx, ver, lst, rst, lhave, rhave, centre, bad, evs, opt, optNext, resSweep, visited>>

Next == Step \/ EndSweep \/ NextSweep
Spec == Init /\ [][Next]_vars

Windows == IF Method = "1site" THEN {<<i, i>> : i \in Sites} ELSE {<<i, i+1>> : i \in 0..(N-2)}
EnvFresh == bad = {}
\* every sweep optimises every window exactly once (the same set in both directions), and _switch_direction does not teleport the centre
Coverage == phase = "between" => /\ visited = Windows
                                 /\ centre = IF dir = "R" THEN N-1 ELSE 0
\* the returned state is a copy taken during the LAST executed sweep (None after a one-sweep procedure: the code asserts)
ResFromLastSweep == phase = "done" => IF sweep >= 2 THEN resSweep = sweep ELSE resSweep = 0
OptIsWindow == phase = "between" => \E w \in Windows : w[1] = optNext

\* emission runs only: one representative choice of the lowest-energy window (the schedule does not depend on it)
OptFirst == optNext \in {-1, 0}
EmitSchedule == (phase = "done") =>
   PrintT(<<"EMIT", ToJson([n |-> N, method |-> Method, start |-> (IF (dir = "R") = (sweep % 2 = 1) THEN "R" ELSE "L"), sweeps |-> sweep,
                            events |-> evs])>>)
=============================================================================
