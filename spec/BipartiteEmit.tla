---------------------------- MODULE BipartiteEmit ----------------------------
(* spec -> code: enumerate EVERY bipartite graph on NU x NV vertices together with its minimum
   vertex cover size (brute force over all vertex subsets); the harness runs both real algorithms on each. *)
EXTENDS BipartiteDefs
VARIABLE g
EmitInit == g \in SUBSET (U \X V)
EmitNext == FALSE /\ UNCHANGED g
AllPairs == [k \in 1..(NU * NV) |-> <<((k - 1) \div NV) + 1, ((k - 1) % NV) + 1>>]
EdgeSeq(E) == SelectSeq(AllPairs, LAMBDA e : e \in E)
EmitGraph == PrintT(<<"EMIT", ToJson([nu |-> NU, nv |-> NV, edges |-> EdgeSeq(g), mincover |-> MinCoverSizeOf(g)])>>)
=============================================================================
