#!/usr/bin/env python3
"""tools/design_matrix.py : regenerate the table of DESIGN.md section 0.7 from seeded/MATRIX.json and the seeds' meta files."""
import json
import os
import re

ROOT = os.path.dirname(os.path.dirname(os.path.abspath(__file__)))
m = json.load(open(os.path.join(ROOT, "seeded", "MATRIX.json")))
rows = []
for sid in sorted(m):
    v = m[sid]
    meta = json.load(open(os.path.join(ROOT, "seeded", sid, "meta.json")))
    lines = [l for l in meta.get("needs_to_manifest", "").strip().splitlines() if l.strip()]
    desc = lines[0].lstrip("# ").strip() if lines else ""
    desc = re.sub(r"^(Change\s+)?[A-F]\s*[—:-]+\s*", "", desc)
    desc = re.sub(r"^\*\*|\*\*$", "", desc)[:110].replace("|", "/")
    keys = ", ".join(f"`{k}`" for k in v.get("violation_keys", [])[:2])
    rows.append(f"| {sid} | {desc} | {v.get('check')} | {keys} |")
s = open(os.path.join(ROOT, "DESIGN.md")).read()
i = s.index("| seed | change (first line of the author")
j = s.index("\n### 0.8 Later corrections")
hdr = "| seed | change (first line of the author's note) | check | first violation keys |\n|---|---|---|---|\n"
s = s[:i] + hdr + "\n".join(rows) + "\n" + s[j:]
open(os.path.join(ROOT, "DESIGN.md"), "w").write(s)
bad = [k for k, v in m.items() if v.get("exit") != 1]
other = sorted(k for k, v in m.items() if v.get("check") != k.split("-")[0])
print(len(rows), "rows; undetected:", bad, "; reported by a neighbouring check:", other)
