class print_tree:
    def __init__(self, root=None, *a, **k):
        self.rows = []
