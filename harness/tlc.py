"""Run TLC (exhaustive / simulate / trace-batch) on a module under /verif/spec and parse its output.

Emission protocol: a spec prints   PrintT(<<"EMIT", ToJson(rec)>>)   (one line per record); parsed here.
Verdict protocol for trace batches: PrintT(<<"VERDICT", ToJson(rec)>>).
"""
import json
import os
import re
import shutil
import subprocess
import tempfile
import time

from .common import VERIF, MachineryError

SPEC_DIR = os.path.join(VERIF, "spec")
JAR = "/opt/veriftools/tla/tla2tools.jar:/opt/veriftools/tla/CommunityModules-deps.jar"

_EMIT = re.compile(r'^<<"(EMIT|VERDICT)", (".*")>>\s*$')


def tla_value(v):
    """Python -> TLA+ constant expression usable in a cfg (no negative numbers there!)."""
    if isinstance(v, bool):
        return "TRUE" if v else "FALSE"
    if isinstance(v, int):
        if v < 0:
            raise ValueError("negative numbers cannot appear in a cfg")
        return str(v)
    if isinstance(v, str):
        return v  # raw TLA text, caller quotes strings
    if isinstance(v, (set, frozenset)):
        return "{" + ", ".join(tla_value(x) for x in sorted(v)) + "}"
    raise TypeError(v)


def tla_lit(v):
    """Python -> TLA+ expression text for use INSIDE a generated module (sequences, records, negatives ok)."""
    if isinstance(v, bool):
        return "TRUE" if v else "FALSE"
    if isinstance(v, int):
        return str(v) if v >= 0 else f"(0 - {-v})"
    if isinstance(v, str):
        return json.dumps(v)
    if isinstance(v, (list, tuple)):
        return "<<" + ", ".join(tla_lit(x) for x in v) + ">>"
    if isinstance(v, (set, frozenset)):
        return "{" + ", ".join(tla_lit(x) for x in v) + "}"
    if isinstance(v, dict):
        if not v:
            return "<<>>"
        return "[" + ", ".join(f"{k} |-> {tla_lit(x)}" for k, x in v.items()) + "]"
    raise TypeError(type(v))


def make_cfg(constants=None, spec=None, init="Init", next_="Next", invariants=(), properties=(),
             constraints=(), action_constraints=(), view=None, symmetry=None, postcondition=None,
             check_deadlock=False, subst=None):
    lines = []
    if spec:
        lines.append(f"SPECIFICATION {spec}")
    else:
        lines.append(f"INIT {init}")
        lines.append(f"NEXT {next_}")
    if constants:
        lines.append("CONSTANTS")
        for k, v in constants.items():
            lines.append(f"  {k} = {tla_value(v)}")
    if subst:
        lines.append("CONSTANTS")
        for k, v in subst.items():
            lines.append(f"  {k} <- {v}")
    for i in invariants:
        lines.append(f"INVARIANT {i}")
    for p in properties:
        lines.append(f"PROPERTY {p}")
    for c in constraints:
        lines.append(f"CONSTRAINT {c}")
    for c in action_constraints:
        lines.append(f"ACTION_CONSTRAINT {c}")
    if view:
        lines.append(f"VIEW {view}")
    if symmetry:
        lines.append(f"SYMMETRY {symmetry}")
    if postcondition:
        lines.append(f"POSTCONDITION {postcondition}")
    lines.append(f"CHECK_DEADLOCK {'TRUE' if check_deadlock else 'FALSE'}")
    return "\n".join(lines) + "\n"


def run(module, cfg_text, mode="check", workers=None, timeout=600, simulate=None, depth=None, seed=None,
        coverage=False, env=None, extra_modules=None, expect_violation=False, module_text=None, vacuity=False, allow_untaken=(),
        deque=False, max_heap="6g"):
    """Run TLC. module: name of /verif/spec/<module>.tla (or module_text for a generated module that
    may EXTEND modules in spec/). Returns dict with states/distinct/generated, emitted records,
    verdict records, violated invariant (or None), raw tail."""
    scratch = tempfile.mkdtemp(prefix="verif-tlc-")
    try:
        # copy spec dir (small) so generated modules can EXTEND anything and TLC writes nothing into /verif
        wd = os.path.join(scratch, "spec")
        shutil.copytree(SPEC_DIR, wd, ignore=shutil.ignore_patterns("cfg", "*.old", "states"))
        if module_text is not None:
            with open(os.path.join(wd, module + ".tla"), "w") as fh:
                fh.write(module_text)
        for name, text in (extra_modules or {}).items():
            with open(os.path.join(wd, name + ".tla"), "w") as fh:
                fh.write(text)
        cfgp = os.path.join(wd, module + "_run.cfg")
        with open(cfgp, "w") as fh:
            fh.write(cfg_text)
        if workers is None:
            workers = 1 if mode in ("emit", "trace") else (os.cpu_count() or 4)
        cmd = ["java", "-XX:+UseParallelGC", f"-Xmx{max_heap}", "-Xss256m"]
        if deque:
            cmd.append("-Dtlc2.tool.queue.IStateQueue=StateDeque")
        cmd += ["-cp", JAR, "tlc2.TLC", "-workers", str(workers), "-metadir", os.path.join(scratch, "meta"),
                "-noGenerateSpecTE", "-config", cfgp]
        coverage = coverage or vacuity
        if coverage:
            cmd += ["-coverage", "1"]
        if mode == "simulate":
            sim = f"num={simulate or 100}"
            cmd += ["-simulate", sim]
            if depth:
                cmd += ["-depth", str(depth)]
        if seed is not None:
            cmd += ["-seed", str(seed)]
        if depth and mode != "simulate":
            pass
        cmd.append(os.path.join(wd, module + ".tla"))
        e = dict(os.environ)
        e.update(env or {})
        t0 = time.time()
        try:
            p = subprocess.run(cmd, cwd=wd, env=e, capture_output=True, text=True, timeout=timeout)
        except subprocess.TimeoutExpired as ex:
            raise MachineryError(f"TLC timeout after {timeout}s on {module}") from ex
        wall = time.time() - t0
        out = p.stdout + "\n" + p.stderr
        res = {"module": module, "mode": mode, "wall_s": wall, "emitted": [], "verdicts": [], "violated": None,
               "distinct": 0, "generated": 0, "rc": p.returncode, "deadlock": False}
        for line in p.stdout.splitlines():
            m = _EMIT.match(line)
            if m:
                rec = json.loads(json.loads(m.group(2)))
                (res["emitted"] if m.group(1) == "EMIT" else res["verdicts"]).append(rec)
                continue
            m = re.match(r"^(\d+) states generated, (\d+) distinct states found", line)
            if m:
                res["generated"], res["distinct"] = int(m.group(1)), int(m.group(2))
            m = re.match(r"^Error: Invariant (\S+) is violated", line)
            if m:
                res["violated"] = m.group(1)
            m = re.match(r"^Error: Action property (\S+) is violated", line)
            if m:
                res["violated"] = m.group(1)
            if "Temporal properties were violated" in line:
                res["violated"] = res["violated"] or "TemporalProperty"
            if line.startswith("Error: Deadlock reached"):
                res["deadlock"] = True
            m = re.match(r"^The number of states generated: (\d+)", line)
            if m and mode == "simulate":
                res["generated"] = int(m.group(1))
                res["distinct"] = max(res["distinct"], int(m.group(1)))
        ok_marker = ("Model checking completed. No error has been found" in out) or (mode == "simulate" and "Error:" not in out)
        res["ok"] = ok_marker and res["violated"] is None
        # counterexample trace text (for diagnostics / replays)
        if res["violated"] or "Error:" in out:
            idx = out.find("Error:")
            res["error_text"] = out[idx: idx + 6000]
        if coverage:
            res["coverage_summary"] = _parse_coverage(p.stdout)
        if vacuity and res["violated"] is None:
            # vacuity gate: an action of the next-state relation that was never taken means the properties were not exercised on it
            if not res["coverage_summary"]:
                raise MachineryError(f"TLC printed no action coverage for {module}")
            untaken = sorted(a for a, v in res["coverage_summary"].items() if v["taken"] == 0 and a not in allow_untaken)
            if untaken:
                raise MachineryError(f"vacuity: actions never taken in {module}: {untaken}")
        hard_fail = (not res["ok"]) and res["violated"] is None and not res["deadlock"]
        if hard_fail or (res["violated"] is None and "Error:" in out and not res["deadlock"]):
            k = out.find("Error:")
            raise MachineryError(f"TLC failed on {module} (rc={p.returncode}):\n{out[max(0, k - 300): k + 1500] if k >= 0 else ''}\n...\n{out[-1500:]}")
        if res["violated"] and not expect_violation:
            pass  # caller decides
        return res
    finally:
        shutil.rmtree(scratch, ignore_errors=True)


def _parse_coverage(stdout):
    """-coverage 1 prints lines like  <Act line 5, col 1 to line 7, col 20 of module M>: 12:34 ; collect per-action counts."""
    cov = {}
    for line in stdout.splitlines():
        m = re.match(r"^<(\w+) line \d+, col \d+ to line \d+, col \d+ of module (\w+)>(?:: (\d+):(\d+))?", line)
        if m and m.group(3) is not None:
            name = m.group(1)
            cov[name] = {"distinct": int(m.group(3)), "taken": int(m.group(4))}
    return cov


def sany(path):
    p = subprocess.run(["java", "-cp", JAR, "tla2sany.SANY", path], capture_output=True, text=True,
                       cwd=os.path.dirname(path))
    ok = p.returncode == 0 and "Semantic errors" not in p.stdout and "Parse Error" not in p.stdout \
        and "Fatal errors" not in p.stdout and "*** Errors" not in p.stdout
    return ok, p.stdout[-2000:]
