"""spec -> code replay of TtnHeap behaviours on real TTNS objects, on a tree and on its mirror image (children of every node
listed in reverse order).  After every action every live object is compared (dense value contracted here, qntot, sector
leakage, isometry of the non-root nodes when the spec says canonical, bond growth, frame) and the observables of the result
(norm, expectation, 1-/2-site and 1-/2-dof RDMs, entropies) are compared with dense values."""
import itertools

import numpy as np

from . import concretize as cz
from . import trees
from . import states as st
from .common import rng_for

TOL = 1e-9


def _vn(p):
    p = np.asarray(p, dtype=float)
    p = p[p > 1e-14]
    return float(-(p * np.log(p)).sum())


class TreeUniverse:
    def __init__(self, tcase, seed, terms_from=None):
        from renormalizer.tn import TTNO
        self.tcase = tcase
        self.tree, self.nodes, self.basis, self.alphas = trees.built(tcase)
        self.sector0 = None
        if terms_from is None:
            self._mk_terms(seed)
        else:
            self.terms, self.charged, self.esites = terms_from.terms, terms_from.charged, terms_from.esites
        from .replay_mpo import build_ops
        self.qn_size = self.basis[0].sigmaqn.shape[1]
        self.ttno = {k: TTNO(self.tree, build_ops(v, self.basis, self.alphas, {}, None, self.qn_size)) for k, v in self.terms.items()}
        self.dense_op = {k: np.real_if_close(cz.dense_terms(v, self.basis, self.alphas)) for k, v in self.terms.items()}
        self.dims = [b.nbas for b in self.basis]

    def _mk_terms(self, seed):
        rng = rng_for(seed, "tree-universe", self.tcase["desc"])
        basis, alphas = self.basis, self.alphas
        N = len(basis)
        esites = [i for i, b in enumerate(basis) if b.is_electron]
        vsites = [i for i, b in enumerate(basis) if b.is_phonon]
        ssites = [i for i, b in enumerate(basis) if b.is_spin]

        def sym(site, name):
            for k, ls in enumerate(alphas[site]):
                if ls.symbol == name:
                    return k + 1
            raise KeyError((site, name))

        def word(d):
            w = [0] * N
            for s, name in d.items():
                w[s] = sym(s, name)
            return tuple(w)
        NUM, CR, AN = "a^\\dagger a", "a^\\dagger", "a"
        h = []
        for i in esites:
            h.append((word({i: NUM}), float(rng.uniform(-1, 1))))
        for a in range(len(esites)):
            for b in range(a + 1, len(esites)):
                t = float(rng.uniform(0.3, 1.0))
                h += [(word({esites[a]: CR, esites[b]: AN}), t), (word({esites[b]: CR, esites[a]: AN}), t)]
        for v in vsites:
            h.append((word({v: alphas[v][0].symbol}), float(rng.uniform(0.2, 0.8))))
            if esites:
                e = esites[int(rng.integers(len(esites)))]
                h.append((word({e: NUM, v: "x"}) if any(ls.symbol == "x" for ls in alphas[v]) else word({e: NUM, v: alphas[v][0].symbol}), float(rng.uniform(0.2, 0.6))))
        for i in ssites:
            h.append((word({i: "sigma_z"}), float(rng.uniform(-1, 1))))
        for a in range(len(ssites)):
            for b in range(a + 1, len(ssites)):
                h.append((word({ssites[a]: "sigma_x", ssites[b]: "sigma_x"}), float(rng.uniform(-1, 1))))
        if esites:
            cr = [(word({i: CR}), float(rng.uniform(0.5, 1.0)) * (1 if k % 2 == 0 else -1)) for k, i in enumerate(esites)]
            an = [(word({i: AN}), float(rng.uniform(0.5, 1.0))) for i in esites]
        else:
            # no conserved charge: "Cr"/"An" are charge-0 operators here (sectors are trivial)
            cr = [(word({i: "sigma_x"}), float(rng.uniform(0.5, 1.0))) for i in ssites]
            an = [(word({i: "sigma_+"}), float(rng.uniform(0.5, 1.0))) for i in ssites]
        self.terms = {"H": h, "Cr": cr, "An": an}
        self.charged = bool(esites) and self.basis[0].sigmaqn.shape[1] == 1
        self.esites = esites

    def qntot(self, Q):
        return int(Q) if self.charged else trees.sector(self.tcase, self.basis)

    def max_q(self):
        return len(self.esites) if self.charged else 0

    def generator(self, i, keys, m=4):
        q = self.qntot(self.sector0)
        t = trees.random_ttns(self.tcase, m, keys + ("gen", i), qntot=q)
        r = rng_for(*keys, "genscale", i)
        t = t.scale(float(r.uniform(0.5, 2.0)))
        if i % 2 == 0:
            t.coeff = float(r.uniform(0.5, 1.5)) * (-1 if r.random() < 0.5 else 1)
            if r.random() < 0.2:
                t.coeff = 1.0 + 4e-7        # agrees with the other generators' 1 to np.allclose's default tolerance, but is not equal
        return t

    def interp(self, val, gens):
        tot = None
        for (opsw, g), re, im in val:
            v = gens[g].reshape(-1)
            for o in opsw:
                v = self.dense_op[o] @ v
            v = (re + 1j * im) * v
            tot = v if tot is None else tot + v
        return tot.reshape(self.dims)

    def leak(self, got, Q):
        if not self.charged:
            return 0.0
        mask = st.sector_projector(self.basis, int(Q))
        return float(np.linalg.norm(got.reshape(-1)[~mask]))


def node_isometry_defect(t):
    worst = 0.0
    for n in t.node_list:
        if n.parent is None:
            continue
        a = np.asarray(n.tensor)
        m = a.reshape(-1, a.shape[-1])
        worst = max(worst, float(np.abs(m.conj().T @ m - np.eye(m.shape[1])).max()))
    return worst


def observe(u, t, tcase, V, a, si, full=False):
    """observables of one TTNS against the dense vector."""
    from renormalizer.mps.backend import np as _np  # noqa
    psi = trees.dense(t, order=list(u.basis)) / t.coeff          # tensor part
    full_psi = psi * t.coeff
    nrm = np.linalg.norm(psi)
    try:
        if abs(t.ttns_norm - nrm) > TOL * (nrm + 1):
            V(f"C11:observe:ttns_norm:{a}", f"ttns_norm {t.ttns_norm} != dense {nrm}", si)
        e = t.expectation(u.ttno["H"])
        ref = np.vdot(psi.reshape(-1), u.dense_op["H"] @ psi.reshape(-1))
        if abs(e - ref) > TOL * (abs(ref) + nrm ** 2 * np.linalg.norm(u.dense_op["H"]) + 1e-30):
            V(f"C11:observe:expectation:{a}", f"expectation(H) = {e} but dense gives {ref}", si)
        # the library's own dense conversion: explicit order of the physical sets, and the default order
        try:
            got = np.asarray(t.todense(list(u.basis))).reshape(psi.shape)
            if np.linalg.norm(got - psi) > TOL * (nrm + 1):
                V(f"C11:observe:todense:explicit-order:{a}", f"TTNS.todense(order) differs from the contraction of the node tensors by {np.linalg.norm(got - psi):.2e}", si)
        except Exception as ex:
            V(f"C11:observe:todense:explicit-order-raises:{type(ex).__name__}", f"TTNS.todense(order) raised {type(ex).__name__}: {ex}", si)
        try:
            got = np.asarray(t.todense())
            dflt = [b for b in t.basis.basis_list if b.__class__.__name__ != "BasisDummy"]
            ref_d = trees.dense(t, order=dflt) / t.coeff
            if got.size != ref_d.size or np.linalg.norm(got.reshape(ref_d.shape) - ref_d) > TOL * (nrm + 1):
                V(f"C11:observe:todense:default-order:{a}", "TTNS.todense() differs from the contraction of the node tensors in the tree's own basis order", si)
        except Exception as ex:
            has_dummy = any(b.__class__.__name__ == "BasisDummy" for b in t.basis.basis_list)
            V(f"C11:observe:todense:default-order-raises:{'dummy-nodes' if has_dummy else 'plain'}:{type(ex).__name__}", f"TTNS.todense() with the default order raised {type(ex).__name__}: {ex}", si)
        if not full or nrm < 1e-12:
            return
        psin = psi / nrm
        tn = t.copy().scale(1.0 / nrm)
        N = len(u.basis)
        letters = "abcdefgh"[:N]
        up = letters.upper()
        bidx = {id(b): k for k, b in enumerate(u.basis)}
        # 1-site RDMs (every node; multi-set nodes give high-dimensional arrays, ket indices then bra indices)
        r1 = tn.calc_1site_rdm()
        for ni, node in enumerate(tn.node_list):
            sets = [b for b in tn.tn2bn[node].basis_sets if b.__class__.__name__ != "BasisDummy"]
            ks = [bidx[id(b)] for b in tn.tn2bn[node].basis_sets if id(b) in bidx]
            sub_b = "".join(up[x] if x in ks else letters[x] for x in range(N))
            out_idx = "".join(letters[x] for x in ks) + "".join(up[x] for x in ks)
            rho = np.einsum(f"{letters},{sub_b}->{out_idx}", psin, psin.conj()) if ks else np.array(np.vdot(psin, psin))
            got = np.asarray(r1[ni]).reshape(rho.shape) if np.asarray(r1[ni]).size == rho.size else np.asarray(r1[ni])
            if got.shape != rho.shape or np.linalg.norm(got - rho) > 1e-8:
                V("C11:rdm:1site", f"calc_1site_rdm()[node {ni}] differs from the dense partial trace (rho[ket..., bra...]) by "
                                   f"{np.linalg.norm(got - rho) if got.shape == rho.shape else 'shape ' + str(got.shape)}", si)
                break
            if ks:
                d = int(np.prod([u.dims[x] for x in ks]))
                s_ref = _vn(np.linalg.eigvalsh(rho.reshape(d, d)))
                s_got = tn.calc_1site_entropy(ni)[ni]
                if abs(s_got - s_ref) > 1e-7:
                    V("C11:entropy:1site", f"1-site entropy of node {ni} = {s_got}, dense {s_ref}", si)
        # 1-dof and 2-dof RDMs over every (ordered) pair of physical DoFs
        dofs = [b.dofs[0] for b in u.basis]
        r1d = tn.calc_1dof_rdm()
        for k, d_ in enumerate(dofs):
            sub_b = letters[:k] + up[k] + letters[k + 1:]
            rho = np.einsum(f"{letters},{sub_b}->{letters[k]}{up[k]}", psin, psin.conj())
            if np.linalg.norm(np.asarray(r1d[d_]) - rho) > 1e-8:
                V("C11:rdm:1dof", f"calc_1dof_rdm()[{d_}] differs from the dense partial trace by {np.linalg.norm(np.asarray(r1d[d_]) - rho):.2e}", si)
                break
        pairs = [(i, j) for i in range(N) for j in range(N) if i != j]
        for (i, j) in pairs:
            try:
                r2 = tn.calc_2dof_rdm((dofs[i], dofs[j]))
            except Exception as ex:
                V(f"C11:rdm:2dof-raises:{type(ex).__name__}", f"calc_2dof_rdm(({dofs[i]},{dofs[j]})) raised {type(ex).__name__}: {ex}", si)
                break
            sub_b = "".join(up[x] if x in (i, j) else letters[x] for x in range(N))
            rho = np.einsum(f"{letters},{sub_b}->{letters[i]}{letters[j]}{up[i]}{up[j]}", psin, psin.conj())
            got = np.asarray(r2[(dofs[i], dofs[j])] if isinstance(r2, dict) else r2)
            if got.shape != rho.shape or np.linalg.norm(got - rho) > 1e-8:
                cls = "descending" if tn.basis.dof2idx[dofs[i]] > tn.basis.dof2idx[dofs[j]] else ("same-node" if tn.basis.dof2idx[dofs[i]] == tn.basis.dof2idx[dofs[j]] else "ascending")
                V(f"C11:rdm:2dof:{cls}", f"calc_2dof_rdm(({dofs[i]},{dofs[j]})) differs from the dense partial trace "
                                         f"({'shape ' + str(got.shape) if got.shape != rho.shape else format(np.linalg.norm(got - rho), '.2e')})", si)
                break
        # 2-site RDMs (Tree.find_path + environments outside the path) over every ordered pair of all-physical nodes, in one
        # call with a list and in one call with a tuple; 2-site entropy; mutual information of pairs of DoFs
        try:
            phys_nodes = [ni for ni, node in enumerate(tn.node_list)
                          if tn.tn2bn[node].basis_sets and all(id(b) in bidx for b in tn.tn2bn[node].basis_sets)]
            npairs = [(a_, b_) for a_ in phys_nodes for b_ in phys_nodes if a_ != b_]
            if npairs:
                r2s = tn.calc_2site_rdm(list(npairs))
                single = tn.calc_2site_rdm(npairs[-1])
                for (a_, b_) in npairs:
                    ka = [bidx[id(b)] for b in tn.tn2bn[tn.node_list[a_]].basis_sets]
                    kb = [bidx[id(b)] for b in tn.tn2bn[tn.node_list[b_]].basis_sets]
                    sub_b = "".join(up[x] if x in ka + kb else letters[x] for x in range(N))
                    out_idx = "".join(letters[x] for x in ka + kb) + "".join(up[x] for x in ka + kb)
                    rho = np.einsum(f"{letters},{sub_b}->{out_idx}", psin, psin.conj())
                    got = np.asarray(r2s[(a_, b_)])
                    cls = "descending" if a_ > b_ else "ascending"
                    if got.shape != rho.shape or np.linalg.norm(got - rho) > 1e-8:
                        V(f"C11:rdm:2site:{cls}", f"calc_2site_rdm([({a_},{b_}), ...]) differs from the dense partial trace (ket indices of both nodes, then bra indices) "
                                                  f"({'shape ' + str(got.shape) if got.shape != rho.shape else format(np.linalg.norm(got - rho), '.2e')})", si)
                        break
                    if (a_, b_) == npairs[-1]:
                        g1 = np.asarray(single[(a_, b_)])
                        if g1.shape != rho.shape or np.linalg.norm(g1 - rho) > 1e-8:
                            V("C11:rdm:2site:tuple-argument", f"calc_2site_rdm(({a_},{b_})) differs from the dense partial trace", si)
                        d = int(np.prod(rho.shape[:rho.ndim // 2]))
                        s_ref = _vn(np.linalg.eigvalsh(rho.reshape(d, d)))
                        s_got = tn.calc_2site_entropy((a_, b_))[(a_, b_)]
                        if abs(s_got - s_ref) > 1e-7:
                            V("C11:entropy:2site", f"2-site entropy of nodes ({a_},{b_}) = {s_got}, dense {s_ref}", si)
            if N >= 2:
                i, j = 0, N - 1
                mi, _ents = tn.calc_2dof_mutual_info((dofs[i], dofs[j]))

                def _s(keep):
                    sub = "".join(up[x] if x in keep else letters[x] for x in range(N))
                    o = "".join(letters[x] for x in keep) + "".join(up[x] for x in keep)
                    rr = np.einsum(f"{letters},{sub}->{o}", psin, psin.conj())
                    dd = int(np.prod(rr.shape[:rr.ndim // 2]))
                    return _vn(np.linalg.eigvalsh(rr.reshape(dd, dd)))
                ref = (_s([i]) + _s([j]) - _s([i, j])) / 2
                if abs(mi[(dofs[i], dofs[j])] - ref) > 1e-7:
                    V("C11:entropy:mutual-info", f"calc_2dof_mutual_info(({dofs[i]},{dofs[j]})) = {mi[(dofs[i], dofs[j])]}, dense (S_i + S_j - S_ij)/2 = {ref}", si)
        except Exception as ex:
            V(f"C11:rdm:2site-raises:{type(ex).__name__}", f"calc_2site_rdm / calc_2site_entropy / calc_2dof_mutual_info raised {type(ex).__name__}: {ex}", si)
        # bond entropies against the tree bipartitions
        try:
            be = tn.calc_bond_entropy() if len(tn.node_list) > 1 else []
            for ni, node in enumerate(tn.node_list):
                if node.parent is None:
                    continue
                sub = trees.subtree_sets(tn, node)
                if not sub or len(sub) == N:
                    continue
                ia = [bidx[id(b)] for b in sub]
                ib = [x for x in range(N) if x not in ia]
                sv = np.linalg.svd(psin.transpose(ia + ib).reshape(int(np.prod([u.dims[x] for x in ia])), -1), compute_uv=False)
                if abs(be[ni] - _vn(sv ** 2)) > 1e-7:
                    V("C11:entropy:bond", f"bond entropy of the edge above node {ni} = {be[ni]}, dense {_vn(sv ** 2)}", si)
                    break
        except Exception as ex:
            V(f"C11:entropy:bond-raises:{type(ex).__name__}", f"calc_bond_entropy raised {type(ex).__name__}: {ex}", si)
    except Exception as ex:
        import traceback
        V(f"C11:observe-raises:{type(ex).__name__}", f"an observable raised {type(ex).__name__}: {ex} | {traceback.format_exc(limit=2).splitlines()[-2].strip()}", si)


def run_case(u, case, keys, owned=("C11", "C13", "C06"), mirror_of=None):
    out = {"viol": [], "steps": 0, "pruned": False, "nontrivial": False}
    detail0 = {"tree": u.tcase["desc"], "case": case, "keys": list(map(str, keys))}

    def V(key, what, step=None):
        if key.split(":")[0] in owned:
            out["viol"].append((key, what, dict(detail0, failed_at_step=step)))
    objs, exp, gens = {}, {}, {}
    try:
        for i in (1, 2):
            if mirror_of is None:
                objs[i] = u.generator(i, keys)
            else:
                ua, _ = mirror_of
                objs[i] = trees.mirror_ttns(ua.generator(i, keys), ua.tcase, u.tcase)
            gens[i] = trees.dense(objs[i], order=list(u.basis))
            exp[i] = {"val": [[[[], i], 1, 0]], "Q": u.sector0, "cano": True}
        if mirror_of is not None:
            ua, _ = mirror_of
            for i in (1, 2):
                ga = trees.dense(ua.generator(i, keys), order=list(ua.basis))
                if np.linalg.norm(ga - gens[i]) > 1e-12 * (np.linalg.norm(ga) + 1):
                    raise RuntimeError("mirror construction broke the state (harness bug)")
        if case.get("c0"):
            # the first generator is already complex (as after a real-time step): a phase on the root and complex storage everywhere
            objs[1] = objs[1].to_complex()
            objs[1] = objs[1].scale(np.exp(0.37j))
            gens[1] = trees.dense(objs[1], order=list(u.basis))
    except Exception as e:
        V("C11:init-raises", f"creating a random TTNS raised {type(e).__name__}: {e}")
        return out
    seen = set()
    hist = case["hist"]
    for si, ev in enumerate(hist):
        a, x, y, r, post = ev["a"], ev["x"], ev["y"], ev["r"], ev["post"]
        if a == "Apply" and not (0 <= post["Q"] <= u.max_q()) and u.charged:
            out["pruned"] = True
            break
        ref_new = u.interp(post["val"], gens)
        if np.linalg.norm(ref_new) < 1e-9 * max(1.0, max(np.linalg.norm(g) for g in gens.values())):
            out["pruned"] = True
            break
        before = {h: trees.dense(o, order=list(u.basis)) for h, o in objs.items()}
        objs_coeff = {h: o.coeff for h, o in objs.items()}
        bonds_before = {h: trees.bond_dims(o) for h, o in objs.items()}
        try:
            ox = objs[x]
            k = ev["k"]
            if a == "Copy":
                res = ox.copy()
            elif a in ("Scale", "ScaleInplace"):
                s = complex(k[0], k[1]) if k[1] != 0 else float(k[0])
                res = ox.scale(s, inplace=(a == "ScaleInplace"))
            elif a == "Add":
                res = ox.add(objs[y])
            elif a == "Apply":
                res = u.ttno[ev["o"]].apply(ox)
            elif a == "Canonicalise":
                res = ox.canonicalise()
            elif a == "CompressLossless":
                res = ox.compress(temp_m_trunc=10 ** 6) if len(u.nodes) > 1 else ox
            elif a == "ToComplexInplace":
                res = ox.to_complex(inplace=True)
            elif a == "ToComplex":
                res = ox.to_complex()
            else:
                raise ValueError(a)
            if res is None:
                res = ox
        except Exception as e:
            cls = "one-node-tree" if len(u.nodes) == 1 else "general"
            V(f"C11:raises:{a}:{cls}", f"{a} raised {type(e).__name__}: {e}", si)
            break
        objs[r] = res
        exp[r] = {"val": post["val"], "Q": post["Q"], "cano": post["cano"]}
        out["steps"] += 1
        seen.add(a)
        bad = False
        for h, o in objs.items():
            ref = u.interp(exp[h]["val"], gens)
            got = trees.dense(o, order=list(u.basis))
            err = np.linalg.norm(got - ref)
            scale = np.linalg.norm(ref) + 1.0
            if not np.isfinite(err) or err > 1e-8 * scale:
                if h == r:
                    cls = "one-node-tree" if len(u.nodes) == 1 else "general"
                    if a == "Add" and len(u.nodes) > 1:
                        cx, cy = complex(objs_coeff.get(x, 1)), complex(objs_coeff.get(y, 1))
                        if not np.allclose(cx, cy):
                            cls = "prefactors-differ"
                    V(f"C11:value:{a}:{cls}", f"after {a} the result differs from the dense expectation by {err:.2e}", si)
                else:
                    V(f"C13:frame:tree:{a}", f"{a} changed the value of handle {h}, which is not its result, by {err:.2e}", si)
                bad = True
                continue
            if u.charged:
                q = np.asarray(o.qntot).reshape(-1)
                if int(q[0]) != int(exp[h]["Q"]):
                    V(f"C06:tree:qntot:{a}", f"after {a} handle {h} advertises qntot {q.tolist()} but lies in sector {exp[h]['Q']}", si)
                lk = u.leak(got, exp[h]["Q"])
                if lk > 1e-8 * scale:
                    V(f"C06:tree:sector-leak:{a}", f"after {a} handle {h} has amplitude {lk:.2e} outside sector {exp[h]['Q']}", si)
            if h == r and exp[h]["cano"] and a in ("Canonicalise", "CompressLossless"):
                d = node_isometry_defect(o)
                if d > 1e-8:
                    V(f"C11:isometry:{a}", f"after {a} a non-root node deviates from an isometry by {d:.2e}", si)
                bb, ba_ = bonds_before[h], trees.bond_dims(o)
                if any(ba_[kk] > bb.get(kk, 10 ** 9) for kk in ba_):
                    V(f"C11:bond-grew:{a}", f"{a} increased a bond dimension: {bb} -> {ba_}", si)
        if bad:
            break
        # survive probe + observables on the result
        try:
            p = objs[r].copy()
            p.canonicalise()
            if len(u.nodes) > 1:      # the library asserts "can't compress a single tree node"
                p.compress(temp_m_trunc=10 ** 6)
            ref = u.interp(exp[r]["val"], gens)
            err = np.linalg.norm(trees.dense(p, order=list(u.basis)) - ref)
            if err > 1e-7 * (np.linalg.norm(ref) + 1):
                V(f"C11:survive:{a}", f"the result of {a} changes by {err:.2e} when a copy is canonicalised and compressed without truncation", si)
                break
        except Exception as e:
            V(f"C11:survive-raises:{a}", f"canonicalise/compress of a copy of the result of {a} raised {type(e).__name__}: {e}", si)
            break
        before2 = {h: trees.dense(o, order=list(u.basis)) for h, o in objs.items()}
        nv = len(out["viol"])
        observe(u, objs[r], u.tcase, V, a, si, full=(si == len(hist) - 1))
        for h, o in objs.items():
            err = np.linalg.norm(trees.dense(o, order=list(u.basis)) - before2[h])
            if err > 1e-9 * (np.linalg.norm(before2[h]) + 1):
                V(f"C13:observe-disturbs:tree:{a}", f"measuring changed the value of handle {h} by {err:.2e}", si)
        if len(out["viol"]) > nv:
            break
    out["nontrivial"] = bool(seen & {"Add", "Apply"})
    return out


_U = {}


def get_universe(tcase, seed, terms_from=None):
    key = (tcase["desc"], seed)
    if key not in _U:
        _U[key] = TreeUniverse(tcase, seed, terms_from)
    return _U[key]


def replay_chunk(args):
    from .common import bootstrap
    bootstrap()
    jobs, seed, owned = args
    out = []
    for jid, tcase, case in jobs:
        ua = get_universe(tcase, seed)
        ua.sector0 = 1 if ua.charged else 0
        keys = (seed, "tree-heap", tcase["desc"], jid)
        ra = run_case(ua, case, keys, owned)
        out.append((jid, "A", ra))
        # mirrored universe: same behaviour, children listed in reverse order
        tb = dict(tcase)
        tb = trees.make_case(tcase["parents"], tcase["sets"], tcase["fam"], tcase["variant"], mirror=True)
        ub = get_universe(tb, seed, terms_from=ua)
        ub.sector0 = ua.sector0
        rb = run_case(ub, case, keys, owned, mirror_of=(ua, None))
        out.append((jid, "B", rb))
    return out
